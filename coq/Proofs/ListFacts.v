(* The list kernel seen through its live values: local insert / delete / update act on the
   sequence of live values exactly like the plain list operations (C03), a local insert at index i
   is readable at index i (C04), Size is the number of live values, and no valid call dereferences nil. *)
From Coq Require Import List NArith ZArith Bool Lia.
From Orda.Model Require Import Base Time Ops List.
Import ListNotations.

Notation vals := values_of.

Lemma vals_app a b : vals (a ++ b) = vals a ++ vals b.
Proof. unfold values_of. apply flat_map_app. Qed.
Lemma vals_cons_live x l v : n_v x = Some v -> vals (x :: l) = v :: vals l.
Proof. intros H. unfold values_of. cbn. rewrite H. reflexivity. Qed.
Lemma vals_cons_dead x l : n_v x = None -> vals (x :: l) = vals l.
Proof. intros H. unfold values_of. cbn. rewrite H. reflexivity. Qed.
Lemma live_iff x : live x = true <-> exists v, n_v x = Some v.
Proof. unfold live. destruct (n_v x); split; try discriminate; eauto. intros [v H]; discriminate. Qed.

Lemma vals_mk_nodes t vs : forall i, vals (mk_nodes t i vs) = vs.
Proof. induction vs as [|v vs IH]; intros i; cbn; [reflexivity|]. unfold values_of in *. cbn. f_equal. apply IH. Qed.

(* ---------- insert ---------- *)
Lemma ins_local_spec ns : forall l pos,
  (pos <= length (vals l))%nat ->
  exists l' t, ins_local l pos ns = Some (l', t) /\
               vals l' = firstn pos (vals l) ++ vals ns ++ skipn pos (vals l).
Proof.
  induction l as [|x l IH]; intros pos Hp.
  - cbn in Hp. assert (pos = 0%nat) by lia. subst. cbn [ins_local]. eexists _, _. split; [reflexivity|]. rewrite vals_app. reflexivity.
  - destruct pos as [|p].
    + cbn [ins_local]. eexists _, _. split; [reflexivity|]. rewrite vals_app. reflexivity.
    + cbn [ins_local]. destruct (live x) eqn:Lx.
      * apply live_iff in Lx. destruct Lx as [v Hv]. rewrite (vals_cons_live _ _ _ Hv) in Hp |- *. cbn [length] in Hp.
        destruct p as [|p'].
        -- eexists _, _. split; [reflexivity|]. rewrite (vals_cons_live _ _ _ Hv), vals_app. reflexivity.
        -- destruct (IH (S p') ltac:(lia)) as [l' [t [E V]]]. rewrite E. eexists _, _. split; [reflexivity|].
           rewrite (vals_cons_live _ _ _ Hv), V. reflexivity.
      * assert (Hd : n_v x = None) by (unfold live in Lx; destruct (n_v x); [discriminate|reflexivity]).
        rewrite (vals_cons_dead _ _ Hd) in Hp |- *.
        destruct (IH (S p) Hp) as [l' [t [E V]]]. rewrite E. eexists _, _. split; [reflexivity|].
        rewrite (vals_cons_dead _ _ Hd). exact V.
Qed.

(* ---------- delete / update walk ---------- *)
Lemma walk_live_spec f (Hf : forall x i, n_v (f x i) = None) : forall l pos num i,
  (pos + num <= length (vals l))%nat ->
  exists l' touched, walk_live l pos num i f = Some (l', touched) /\
    vals l' = firstn pos (vals l) ++ skipn (pos + num) (vals l) /\
    vals touched = firstn num (skipn pos (vals l)) /\ length touched = num.
Proof.
  induction l as [|x l IH]; intros pos num i Hp.
  - cbn in Hp. assert (pos = 0%nat /\ num = 0%nat) as [-> ->] by lia. cbn. eexists _, _. repeat split.
  - destruct num as [|num'].
    + cbn [walk_live]. eexists _, _. split; [reflexivity|]. rewrite Nat.add_0_r, firstn_skipn. repeat split.
    + cbn [walk_live]. destruct (live x) eqn:Lx.
      * apply live_iff in Lx. destruct Lx as [v Hv]. rewrite (vals_cons_live _ _ _ Hv) in Hp |- *. cbn [length] in Hp.
        destruct pos as [|pos'].
        -- destruct (IH 0%nat num' (i + 1)%N ltac:(lia)) as [l' [tch [E [V1 [V2 V3]]]]]. rewrite E.
           eexists _, _. split; [reflexivity|]. cbn [firstn skipn Nat.add app] in *.
           rewrite (vals_cons_dead _ _ (Hf x i)), (vals_cons_live _ _ _ Hv), V1, V2. repeat split. cbn. lia.
        -- destruct (IH pos' (S num') i ltac:(lia)) as [l' [tch [E [V1 [V2 V3]]]]]. rewrite E.
           eexists _, _. split; [reflexivity|]. rewrite (vals_cons_live _ _ _ Hv), V1. cbn. repeat split; auto.
      * assert (Hd : n_v x = None) by (unfold live in Lx; destruct (n_v x); [discriminate|reflexivity]).
        rewrite (vals_cons_dead _ _ Hd) in Hp |- *.
        destruct (IH pos (S num') i Hp) as [l' [tch [E [V1 [V2 V3]]]]]. rewrite E.
        eexists _, _. split; [reflexivity|]. rewrite (vals_cons_dead _ _ Hd). auto.
Qed.

Lemma walk_upd_spec t : forall vs l pos i,
  (pos + length vs <= length (vals l))%nat ->
  exists l' touched, walk_upd l pos vs t i = Some (l', touched) /\
    vals l' = firstn pos (vals l) ++ vs ++ skipn (pos + length vs) (vals l) /\
    vals touched = firstn (length vs) (skipn pos (vals l)).
Proof.
  intros vs l. revert vs. induction l as [|x l IH]; intros vs pos i Hp.
  - cbn in Hp. assert (pos = 0%nat) by lia. destruct vs; [|cbn in Hp; lia]. subst. cbn. eexists _, _. repeat split.
  - destruct vs as [|v vs'].
    + cbn [walk_upd length]. eexists _, _. split; [reflexivity|]. rewrite Nat.add_0_r. cbn [app firstn]. rewrite firstn_skipn. auto.
    + cbn [walk_upd]. destruct (live x) eqn:Lx.
      * apply live_iff in Lx. destruct Lx as [v0 Hv]. rewrite (vals_cons_live _ _ _ Hv) in Hp |- *. cbn [length] in Hp.
        destruct pos as [|pos'].
        -- destruct (IH vs' 0%nat (i + 1)%N ltac:(lia)) as [l' [tch [E [V1 V2]]]]. rewrite E.
           eexists _, _. split; [reflexivity|]. cbn [firstn skipn Nat.add app length] in *.
           rewrite (vals_cons_live _ _ v (eq_refl : n_v (mkNode (n_o x) (ts_at t i) (Some v)) = Some v)),
                   (vals_cons_live _ _ _ Hv), V1, V2. auto.
        -- destruct (IH (v :: vs') pos' i ltac:(cbn [length]; lia)) as [l' [tch [E [V1 V2]]]]. rewrite E.
           eexists _, _. split; [reflexivity|]. rewrite (vals_cons_live _ _ _ Hv), V1. cbn. auto.
      * assert (Hd : n_v x = None) by (unfold live in Lx; destruct (n_v x); [discriminate|reflexivity]).
        rewrite (vals_cons_dead _ _ Hd) in Hp |- *.
        destruct (IH (v :: vs') pos i Hp) as [l' [tch [E [V1 V2]]]]. rewrite E.
        eexists _, _. split; [reflexivity|]. rewrite (vals_cons_dead _ _ Hd). auto.
Qed.

(* ---------- the plain list and the refinement ---------- *)
Definition sized (s : lstate) : Prop := l_size s = Z.of_nat (length (l_values s)).

Definition plain_insert (p : list val) (pos : nat) (vs : list val) := firstn pos p ++ vs ++ skipn pos p.
Definition plain_delete (p : list val) (pos num : nat) := firstn pos p ++ skipn (pos + num) p.
Definition plain_update (p : list val) (pos : nat) (vs : list val) := firstn pos p ++ vs ++ skipn (pos + length vs) p.

(* a valid call never dereferences nil, acts on the live values like the plain operation, returns what
   the plain operation returns, and keeps Size = number of live values *)
Theorem list_local_refines_plain s c i :
  sized s -> l_validate s c = true ->
  exists s' o r, l_exec_local s c i = Some (s', o, r) /\ sized s' /\ op_id o = i /\
    match c with
    | LInsert pos vs => l_values s' = plain_insert (l_values s) (Z.to_nat pos) vs /\ r = vs
    | LDelete pos num => l_values s' = plain_delete (l_values s) (Z.to_nat pos) (Z.to_nat num) /\
                         r = firstn (Z.to_nat num) (skipn (Z.to_nat pos) (l_values s))
    | LUpdate pos vs => l_values s' = plain_update (l_values s) (Z.to_nat pos) vs /\
                        r = firstn (length vs) (skipn (Z.to_nat pos) (l_values s))
    end.
Proof.
  intros Hs Hv. unfold sized, l_values in *. destruct c as [pos vs|pos num|pos vs]; cbn [l_validate l_exec_local] in *.
  - apply andb_true_iff in Hv. destruct Hv as [H1 H2]. apply Z.leb_le in H1, H2.
    destruct (ins_local_spec (mk_nodes (opid_ts i) 0 vs) (l_nodes s) (Z.to_nat pos) ltac:(lia)) as [l' [t [E V]]].
    rewrite E. eexists _, _, _. split; [reflexivity|]. cbn [l_nodes l_size op_id]. rewrite vals_mk_nodes in V.
    repeat split; auto. rewrite V, !app_length, firstn_length, skipn_length. lia.
  - unfold valid_get_range in Hv. apply andb_true_iff in Hv. destruct Hv as [Hv H3]. apply andb_true_iff in Hv. destruct Hv as [H1 H2].
    apply Z.leb_le in H1, H2. apply negb_true_iff, orb_false_iff in H3. destruct H3 as [H3 H4].
    apply Z.ltb_ge in H3, H4. unfold l_delete_local.
    destruct (walk_live_spec (tomb (opid_ts i)) (fun _ _ => eq_refl) (l_nodes s) (Z.to_nat pos) (Z.to_nat num) 0%N ltac:(lia))
      as [l' [tch [E [V1 [V2 V3]]]]].
    rewrite E. eexists _, _, _. split; [reflexivity|]. cbn [l_nodes l_size op_id]. repeat split; auto.
    rewrite V1, app_length, firstn_length, skipn_length. lia.
  - unfold valid_get_range in Hv. apply andb_true_iff in Hv. destruct Hv as [Hv H3]. apply andb_true_iff in Hv. destruct Hv as [H1 H2].
    apply Z.leb_le in H1, H2. apply negb_true_iff, orb_false_iff in H3. destruct H3 as [H3 H4].
    apply Z.ltb_ge in H3, H4. unfold l_update_local.
    destruct (walk_upd_spec (opid_ts i) vs (l_nodes s) (Z.to_nat pos) 0%N ltac:(lia)) as [l' [tch [E [V1 V2]]]].
    rewrite E. eexists _, _, _. split; [reflexivity|]. cbn [l_nodes l_size op_id]. repeat split; auto.
    rewrite V1, !app_length, firstn_length, skipn_length. lia.
Qed.

(* C04: a local insert at index i is immediately readable at index i *)
Corollary local_insert_readable s pos v vs i s' o r :
  sized s -> l_validate s (LInsert pos (v :: vs)) = true ->
  l_exec_local s (LInsert pos (v :: vs)) i = Some (s', o, r) ->
  nth_error (l_values s') (Z.to_nat pos) = Some v.
Proof.
  intros Hs Hv E. destruct (list_local_refines_plain s _ i Hs Hv) as [s1 [o1 [r1 [E1 [_ [_ [V _]]]]]]].
  rewrite E in E1. injection E1 as <- _ _. rewrite V. unfold plain_insert.
  cbn in Hv. apply andb_true_iff in Hv. destruct Hv as [H1 H2]. apply Z.leb_le in H1, H2.
  unfold sized in Hs. rewrite nth_error_app2; rewrite firstn_length; [|lia].
  replace (Z.to_nat pos - Nat.min (Z.to_nat pos) (length (l_values s)))%nat with 0%nat by lia. reflexivity.
Qed.


(* ---------- C04: elements are never reordered or resurrected on a replica ---------- *)
Inductive sublist {A} : list A -> list A -> Prop :=
| sub_nil : forall l, sublist [] l
| sub_keep : forall x a b, sublist a b -> sublist (x :: a) (x :: b)
| sub_skip : forall x a b, sublist a b -> sublist a (x :: b).
Lemma sublist_refl {A} (l : list A) : sublist l l.
Proof. induction l; constructor; auto. Qed.
Lemma sublist_app_r {A} (a b c : list A) : sublist a b -> sublist a (c ++ b).
Proof. intros H. induction c; cbn; [exact H|constructor; exact IHc]. Qed.
Lemma sublist_app {A} (a b c d : list A) : sublist a b -> sublist c d -> sublist (a ++ c) (b ++ d).
Proof. induction 1; cbn; intros H2; [apply sublist_app_r; exact H2|constructor; auto|constructor; auto]. Qed.
Lemma sublist_trans {A} (a b c : list A) : sublist a b -> sublist b c -> sublist a c.
Proof.
  intros H1 H2. revert a H1. induction H2 as [l|x b c H IH|x b c H IH]; intros a H1.
  - inversion H1; constructor.
  - inversion H1; subst; [constructor|constructor; apply IH; assumption|apply sub_skip; apply IH; assumption].
  - apply sub_skip. apply IH. exact H1.
Qed.

(* the part of a node that never changes (its identity) together with whether it is still alive *)
Definition ids (l : list node) : list ts := map n_o l.
(* l' keeps every node of l, in the same order, and no dead node of l is alive in l' *)
Definition preserves (l l' : list node) : Prop :=
  sublist (ids l) (ids l') /\
  sublist (ids (filter (fun x => negb (live x)) l)) (ids (filter (fun x => negb (live x)) l')).

Lemma preserves_refl l : preserves l l.
Proof. split; apply sublist_refl. Qed.
Lemma preserves_trans a b c : preserves a b -> preserves b c -> preserves a c.
Proof. intros [A1 A2] [B1 B2]. split; eapply sublist_trans; eauto. Qed.

Lemma skip_gt_split l t : forall a b, skip_gt l t = (a, b) -> l = a ++ b.
Proof.
  induction l as [|x l IH]; cbn; intros a b.
  - intros [= <- <-]. reflexivity.
  - destruct (ts_gt (n_o x) t).
    + destruct (skip_gt l t) as [a' b'] eqn:E. intros [= <- <-]. cbn. f_equal. apply IH. reflexivity.
    + intros [= <- <-]. reflexivity.
Qed.

Definition dead_ids (l : list node) := ids (filter (fun x => negb (live x)) l).
Lemma dead_ids_app a b : dead_ids (a ++ b) = dead_ids a ++ dead_ids b.
Proof. unfold dead_ids, ids. rewrite filter_app, map_app. reflexivity. Qed.
Lemma ids_app a b : ids (a ++ b) = ids a ++ ids b.
Proof. unfold ids. apply map_app. Qed.

Lemma ins_many_preserves ns : forall l, preserves l (ins_many l ns).
Proof.
  induction ns as [|n ns IH]; intros l; cbn [ins_many]; [apply preserves_refl|].
  destruct (skip_gt l (n_t n)) as [a b] eqn:E. apply skip_gt_split in E. subst l.
  destruct (IH b) as [I1 I2]. split.
  - rewrite !ids_app. apply sublist_app; [apply sublist_refl|]. cbn. apply sub_skip. exact I1.
  - fold (dead_ids (a ++ b)). fold (dead_ids (a ++ n :: ins_many b ns)).
    rewrite !dead_ids_app. apply sublist_app; [apply sublist_refl|].
    change (n :: ins_many b ns) with ([n] ++ ins_many b ns). rewrite dead_ids_app. apply sublist_app_r. exact I2.
Qed.

Lemma preserves_cons x a b : preserves a b -> preserves (x :: a) (x :: b).
Proof.
  intros [H1 H2]. split; cbn; [constructor; exact H1|].
  destruct (negb (live x)); cbn; [constructor|]; exact H2.
Qed.

Lemma ins_at_preserves l target ns l' : ins_at l target ns = Some l' -> preserves l l'.
Proof.
  revert l'. induction l as [|x l IH]; intros l'; cbn; [discriminate|].
  destruct (ts_eqb (n_o x) target).
  - intros [= <-]. apply preserves_cons, ins_many_preserves.
  - destruct (ins_at l target ns) as [l1|]; [|discriminate]. intros [= <-]. apply preserves_cons. apply IH. reflexivity.
Qed.

(* changing one node's value/time in place, never from dead to alive *)
Lemma upd_node_preserves l tg f :
  (forall x, n_o (f x) = n_o x) -> (forall x, live x = false -> live (f x) = false) ->
  preserves l (upd_node l tg f).
Proof.
  intros Hid Hdead. induction l as [|x l IH]; cbn; [apply preserves_refl|].
  destruct (ts_eqb (n_o x) tg).
  - split; cbn.
    + rewrite Hid. apply sublist_refl.
    + destruct (live x) eqn:Lx; cbn.
      * destruct (negb (live (f x))); cbn; [apply sub_skip|]; apply sublist_refl.
      * rewrite (Hdead x Lx). cbn. rewrite Hid. apply sublist_refl.
  - apply preserves_cons. exact IH.
Qed.

Lemma delete_remote_preserves targets t : forall l sz i,
  preserves l (fst (l_delete_remote_go l sz targets t i)).
Proof.
  induction targets as [|tg tgs IH]; intros l sz i; cbn [l_delete_remote_go fst]; [apply preserves_refl|].
  destruct (find_node l tg) as [x|]; [|apply IH].
  destruct (live x); [|destruct (ts_lt (n_t x) (ts_at t i))]; try apply IH;
    (eapply preserves_trans; [|apply IH]); apply upd_node_preserves; auto.
Qed.

Lemma update_remote_preserves targets : forall vs t l i,
  (forall x, In x l -> True) ->
  sublist (ids l) (ids (l_update_remote_go l targets vs t i)).
Proof.
  induction targets as [|tg tgs IH]; intros vs t l i _; cbn [l_update_remote_go]; [apply sublist_refl|].
  destruct vs as [|v vs]; [apply sublist_refl|].
  destruct (find_node l tg) as [x|]; [|apply IH; auto].
  destruct (live x && ts_lt (n_t x) (ts_at t i)); [|apply IH; auto].
  eapply sublist_trans; [|apply IH; auto].
  clear. induction l as [|y l IHl]; cbn; [constructor|]. destruct (ts_eqb (n_o y) tg); cbn; constructor; [apply sublist_refl|exact IHl].
Qed.

(* every remote operation keeps all existing elements, in their order (insert adds, delete and
   update change in place) *)
Theorem remote_keeps_order s o : is_snap o = false -> sublist (ids (l_nodes s)) (ids (l_nodes (l_exec_remote s o))).
Proof.
  intros Hs. destruct o; cbn [l_exec_remote]; try apply sublist_refl; try discriminate Hs.
  - unfold l_insert_remote. destruct (ts_eqb target oldest_ts).
    + cbn. apply ins_many_preserves.
    + destruct (ins_at (l_nodes s) target (mk_nodes (opid_ts id) 0 vs)) as [l'|] eqn:E; cbn; [|apply sublist_refl].
      apply (ins_at_preserves _ _ _ _ E).
  - unfold l_delete_remote. pose proof (delete_remote_preserves targets (opid_ts id) (l_nodes s) (l_size s) 0%N) as [H _].
    destruct (l_delete_remote_go (l_nodes s) (l_size s) targets (opid_ts id) 0). exact H.
  - unfold l_update_remote. cbn. apply update_remote_preserves. auto.
Qed.

(* a remote insert or delete never brings a deleted element back *)
Theorem remote_insert_delete_keep_dead s o : is_snap o = false ->
  match o with OUpd _ _ _ => True | _ =>
    sublist (dead_ids (l_nodes s)) (dead_ids (l_nodes (l_exec_remote s o))) end.
Proof.
  intros Hs. destruct o; cbn [l_exec_remote]; try apply sublist_refl; try exact I; try discriminate Hs.
  - unfold l_insert_remote. destruct (ts_eqb target oldest_ts).
    + cbn. apply ins_many_preserves.
    + destruct (ins_at (l_nodes s) target (mk_nodes (opid_ts id) 0 vs)) as [l'|] eqn:E; cbn; [|apply sublist_refl].
      apply (ins_at_preserves _ _ _ _ E).
  - unfold l_delete_remote. pose proof (delete_remote_preserves targets (opid_ts id) (l_nodes s) (l_size s) 0%N) as [_ H].
    destruct (l_delete_remote_go (l_nodes s) (l_size s) targets (opid_ts id) 0). exact H.
Qed.

Lemma upd_node_live_dead_ids l tg f x :
  find_node l tg = Some x -> live x = true -> (forall y, live (f y) = true) ->
  dead_ids (upd_node l tg f) = dead_ids l.
Proof.
  unfold find_node. induction l as [|y l IH]; cbn; [discriminate|].
  destruct (ts_eqb (n_o y) tg).
  - intros [= ->] Hl Hf. unfold dead_ids. cbn. rewrite Hl, Hf. reflexivity.
  - intros H Hl Hf. unfold dead_ids in *. cbn. destruct (negb (live y)); cbn; [f_equal|]; apply IH; auto.
Qed.

Lemma update_remote_dead targets : forall vs t l i,
  dead_ids (l_update_remote_go l targets vs t i) = dead_ids l.
Proof.
  induction targets as [|tg tgs IH]; intros vs t l i; cbn [l_update_remote_go]; [reflexivity|].
  destruct vs as [|v vs]; [reflexivity|].
  destruct (find_node l tg) as [x|] eqn:Ef; [|apply IH].
  destruct (live x) eqn:Lx; cbn [andb]; [|apply IH].
  destruct (ts_lt (n_t x) (ts_at t i)); [|apply IH].
  rewrite IH. eapply upd_node_live_dead_ids; eauto.
Qed.

(* C04: whatever remote operation is applied, an element that was deleted stays deleted *)
Theorem remote_never_resurrects s o : is_snap o = false ->
  sublist (dead_ids (l_nodes s)) (dead_ids (l_nodes (l_exec_remote s o))).
Proof.
  intros Hs. destruct o; try discriminate Hs; try apply sublist_refl.
  - apply (remote_insert_delete_keep_dead s (OIns id target vs)); reflexivity.
  - apply (remote_insert_delete_keep_dead s (ODel id targets)); reflexivity.
  - cbn [l_exec_remote]. unfold l_update_remote. cbn [l_nodes]. rewrite update_remote_dead. apply sublist_refl.
Qed.
