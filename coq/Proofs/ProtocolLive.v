(* C05 / C18: a client whose exchange is answered has caught up.  In the protocol system of Protocol.v, right after an
   exchange of client i whose answer arrives, client i's checkpoint is the end of the log and it has executed every
   operation of the log that is not its own, in log order, each once — so clients that sync when they are told that
   something was pushed (the notification of C18) converge without anybody asking them to. *)
From Coq Require Import List NArith ZArith Bool Lia.
From Orda.Model Require Import Base Time Ops Server Wire.
From Orda.Proofs Require Import TimeFacts MapFacts ServerFacts ClientOrder WireFacts ExchangeFacts Protocol ProtocolLate.
Import ListNotations.
Open Scope N_scope.

Lemma upd_nth_len {A} (l : list A) : forall i x, length (upd_nth l i x) = length l.
Proof. induction l as [|y l IH]; intros i x; [destruct i; reflexivity|]. destruct i; cbn; [reflexivity|rewrite IH; reflexivity]. Qed.

Section Live.
  Variables (colname : str) (col : N) (D key : str) (ty : N).
  Notation pstep' := (pstep colname col D key ty).

  Theorem answered_sync_catches_up st i c d0 :
    PInv col D st -> nth_error (ps_cl st) i = Some c -> In d0 (s_dts (ps_db st)) -> dd_duid d0 = D ->
    dd_end d0 + N.of_nat (length (pc_buf c)) < big -> cseq (rec_of d0 (pc_cuid c)) + N.of_nat (length (pc_buf c)) < big ->
    let st' := pstep' st (PSync i false) in
    PInv col D st' /\
    exists c' d0', nth_error (ps_cl st') i = Some c' /\ In d0' (s_dts (ps_db st')) /\ dd_duid d0' = D /\
      pc_cuid c' = pc_cuid c /\ pc_s c' = dd_end d0' /\
      pc_exec c' = foreign (pc_cuid c') (logops D (ps_db st')) /\
      ps_cl st' = upd_nth (ps_cl st) i c' /\
      (pc_buf c = [] -> pc_buf c' = [] /\ logops D (ps_db st') = logops D (ps_db st) /\ dd_end d0' = dd_end d0 /\
                        forall v, cseq (rec_of d0' v) = cseq (rec_of d0 v)).
  Proof.
    intros HP En Hin Hd B1 B2 st'. pose proof (pstep_inv colname col D key ty st (PSync i false) HP) as HP'. fold st' in HP'.
    split; [exact HP'|].
    pose proof HP as [Hinv [Hci [Hnd [d0x [Hinx [Hdx [Hcol Hcl]]]]]]]. pose proof Hinv as [Hndd _ _ _].
    assert (d0x = d0) by (eapply (nodup_map_in_inj dd_duid); eauto; congruence). subst d0x.
    assert (Ef : find_dt (ps_db st) D = Some d0) by (rewrite <- Hd; apply find_dt_of_in; assumption).
    rewrite Forall_forall in Hcl. pose proof (Hcl c (nth_error_In _ _ En)) as Hc.
    destruct (sync_effect colname col D key ty (ps_db st) d0 c Hinv Hin Hd Hcol Hc B1 B2) as [newdocs [Hhp [_ [Hlnd [_ Hinc]]]]].
    cbv zeta in Hhp, Hinc.
    assert (Est : st' = mkPs (mkSdb (s_cols (ps_db st)) (s_colctr (ps_db st)) (s_clients (ps_db st))
                              (upsert_dt (s_dts (ps_db st)) (set_end (set_client d0 false (pc_cuid c)
                                 (mkCp (dd_end d0 + N.of_nat (length newdocs)) (cseq (rec_of d0 (pc_cuid c)) + N.of_nat (length newdocs))))
                                 (dd_end d0 + N.of_nat (length newdocs))))
                              (s_ops (ps_db st) ++ newdocs))
                        (upd_nth (ps_cl st) i
                           (mkPc (pc_cuid c) (N.max (pc_s c) (dd_end d0 + N.of_nat (length newdocs)))
                                 (N.max (pc_cc c) (cseq (rec_of d0 (pc_cuid c)) + N.of_nat (length newdocs)))
                                 (skipn (N.to_nat (N.max (pc_cc c) (cseq (rec_of d0 (pc_cuid c)) + N.of_nat (length newdocs)) - pc_cc c)) (pc_buf c))
                                 (pc_exec c ++ filter (fun o => negb (own_of (pc_cuid c) o)) (skipn (N.to_nat (pc_s c)) (logops D (ps_db st))))))).
    { unfold st'. cbn [pstep]. rewrite En, Ef.
      assert (G : (dd_end d0 + N.of_nat (length (pc_buf c)) <? big) && (cseq (rec_of d0 (pc_cuid c)) + N.of_nat (length (pc_buf c)) <? big) = true)
        by (apply andb_true_iff; split; apply N.ltb_lt; assumption).
      rewrite G, Hhp. cbn [p_err p_cp sseq cseq]. rewrite Hinc. reflexivity. }
    set (d1 := set_end (set_client d0 false (pc_cuid c) (mkCp (dd_end d0 + N.of_nat (length newdocs)) (cseq (rec_of d0 (pc_cuid c)) + N.of_nat (length newdocs))))
                       (dd_end d0 + N.of_nat (length newdocs))) in *.
    pose proof HP' as [Hinv' [_ [_ [d1x [Hin1 [Hd1 [_ Hcl']]]]]]].
    assert (Hd1in : In d1 (s_dts (ps_db st'))) by (rewrite Est; cbn [ps_db s_dts]; apply (upsert_in _ _ _ Hndd); left; reflexivity).
    assert (d1x = d1).
    { pose proof Hinv' as [Hndd' _ _ _]. eapply (nodup_map_in_inj dd_duid); eauto. rewrite Hd1. unfold d1, set_end, set_client. cbn. symmetry. exact Hd. }
    subst d1x.
    assert (Hi : (i < length (ps_cl st))%nat) by (apply nth_error_Some; congruence).
    destruct Hc as [C1 _].
    eexists _, d1. split.
    - rewrite Est. cbn [ps_cl]. rewrite nth_upd_nth, Nat.eqb_refl, En. reflexivity.
    - split; [exact Hd1in|]. split; [exact Hd1|]. cbn [pc_cuid pc_s pc_exec]. split; [reflexivity|].
      assert (Es : N.max (pc_s c) (dd_end d0 + N.of_nat (length newdocs)) = dd_end d1) by (unfold d1, set_end; cbn [dd_end]; lia).
      split; [exact Es|].
      (* exactly once, through the invariant of the new state *)
      rewrite Forall_forall in Hcl'.
      assert (Hmem : In (mkPc (pc_cuid c) (N.max (pc_s c) (dd_end d0 + N.of_nat (length newdocs)))
                              (N.max (pc_cc c) (cseq (rec_of d0 (pc_cuid c)) + N.of_nat (length newdocs)))
                              (skipn (N.to_nat (N.max (pc_cc c) (cseq (rec_of d0 (pc_cuid c)) + N.of_nat (length newdocs)) - pc_cc c)) (pc_buf c))
                              (pc_exec c ++ filter (fun o => negb (own_of (pc_cuid c) o)) (skipn (N.to_nat (pc_s c)) (logops D (ps_db st)))))
                        (ps_cl st')).
      { rewrite Est. cbn [ps_cl]. eapply nth_error_In. rewrite nth_upd_nth, Nat.eqb_refl, En. reflexivity. }
      destruct (Hcl' _ Hmem) as [_ [_ [_ [_ [_ [_ C7]]]]]]. cbn [pc_exec pc_s pc_cuid] in C7. split.
      { rewrite C7, Es. destruct (logops_len D (ps_db st') d1 Hinv' Hd1in Hd1) as [_ Hlen]. rewrite <- Hlen, firstn_all. reflexivity. }
      split; [rewrite Est; reflexivity|].
      intros Hb. cbn [pc_buf]. rewrite Hb, skipn_nil. split; [reflexivity|].
      assert (Hn : newdocs = []) by (destruct newdocs; [reflexivity|]; rewrite Hb in Hlnd; cbn in Hlnd; discriminate).
      rewrite Est, Hn. cbn [ps_db]. unfold logops, logdocs. cbn [s_ops]. rewrite app_nil_r. split; [reflexivity|].
      split; [unfold d1, set_end; cbn [dd_end]; rewrite Hn; cbn; lia|].
      intros v. unfold d1. rewrite rec_of_set, Hn. cbn [length N.of_nat]. destruct (str_eqb v (pc_cuid c)) eqn:E; [|reflexivity].
      apply str_eqb_eq in E. subst v. cbn [cseq]. lia.
  Qed.

  (* when nobody has anything left to push, one answered sync per client makes all of them agree: each has executed the
     whole log but its own operations, and the log did not move *)
  Definition quiet (st : psys) : Prop :=
    (forall c, In c (ps_cl st) -> pc_buf c = []) /\
    (forall d0, In d0 (s_dts (ps_db st)) -> dd_duid d0 = D -> dd_end d0 < big /\ forall v, cseq (rec_of d0 v) < big).

  Lemma quiet_round k : forall n st e0 L0,
    PInv col D st -> quiet st -> (k + n = length (ps_cl st))%nat ->
    (forall d0, In d0 (s_dts (ps_db st)) -> dd_duid d0 = D -> dd_end d0 = e0) -> logops D (ps_db st) = L0 ->
    (forall j c, (j < k)%nat -> nth_error (ps_cl st) j = Some c -> pc_s c = e0) ->
    let st' := prun colname col D key ty st (map (fun i => PSync i false) (seq k n)) in
    PInv col D st' /\ logops D (ps_db st') = L0 /\ length (ps_cl st') = length (ps_cl st) /\
    (forall d0, In d0 (s_dts (ps_db st')) -> dd_duid d0 = D -> dd_end d0 = e0) /\
    (forall j c, nth_error (ps_cl st') j = Some c -> pc_s c = e0).
  Proof.
    intros n. revert k. induction n as [|n IH]; intros k st e0 L0 HP HQ Hlen He HL Hpre; cbn [seq map prun fold_left].
    - split; [exact HP|]. split; [exact HL|]. split; [reflexivity|]. split; [exact He|]. intros j c Hj. apply (Hpre j c); [|exact Hj].
      assert (j < length (ps_cl st))%nat by (apply nth_error_Some; congruence). lia.
    - destruct HQ as [Hbuf Hbnd]. pose proof HP as [_ [_ [_ [d0 [Hin [Hd _]]]]]].
      assert (Hk : (k < length (ps_cl st))%nat) by lia.
      destruct (nth_error (ps_cl st) k) as [c|] eqn:En; [|apply nth_error_None in En; lia].
      pose proof (Hbuf c (nth_error_In _ _ En)) as Hb. destruct (Hbnd d0 Hin Hd) as [B1 B2].
      destruct (answered_sync_catches_up st k c d0 HP En Hin Hd ltac:(rewrite Hb; cbn; lia) ltac:(rewrite Hb; cbn; specialize (B2 (pc_cuid c)); lia))
        as [HP' [c' [d0' [En' [Hin' [Hd' [_ [Hs' [_ [Hcl' Hq]]]]]]]]]].
      destruct (Hq Hb) as [Hb' [HL' [He' Hrec]]].
      set (st1 := pstep colname col D key ty st (PSync k false)) in *.
      assert (Hlen1 : length (ps_cl st1) = length (ps_cl st)) by (rewrite Hcl'; apply upd_nth_len).
      assert (Huniq : forall dx, In dx (s_dts (ps_db st1)) -> dd_duid dx = D -> dx = d0').
      { intros dx Hx Hdx. pose proof HP' as [[Hndd _ _ _] _]. eapply (nodup_map_in_inj dd_duid); eauto. congruence. }
      assert (He1 : forall dx, In dx (s_dts (ps_db st1)) -> dd_duid dx = D -> dd_end dx = e0).
      { intros dx Hx Hdx. rewrite (Huniq dx Hx Hdx), He'. apply (He d0 Hin Hd). }
      destruct (IH (S k) st1 e0 L0 HP') as [I1 [I2 [I3 [I4 I5]]]].
      + split.
        * intros x Hx. rewrite Hcl' in Hx. apply In_nth_error in Hx. destruct Hx as [j Hj]. rewrite nth_upd_nth in Hj.
          destruct (Nat.eqb j k); [destruct (nth_error (ps_cl st) j); [injection Hj as <-; exact Hb'|discriminate]|].
          apply (Hbuf x (nth_error_In _ _ Hj)).
        * intros dx Hx Hdx. rewrite (Huniq dx Hx Hdx). split; [rewrite He'; exact B1|]. intros v. rewrite Hrec. apply B2.
      + rewrite Hlen1. lia.
      + exact He1.
      + rewrite HL'. exact HL.
      + intros j x Hj Hx. rewrite Hcl', nth_upd_nth in Hx. destruct (Nat.eqb_spec j k) as [->|Hne].
        * rewrite En in Hx. injection Hx as <-. rewrite Hs', He'. apply (He d0 Hin Hd).
        * apply (Hpre j x); [lia|exact Hx].
      + cbv zeta in I1, I2, I3, I4, I5. unfold prun in *. split; [exact I1|]. split; [exact I2|]. split; [rewrite I3; exact Hlen1|]. split; [exact I4|exact I5].
  Qed.

  Theorem quiet_round_converges st :
    PInv col D st -> quiet st ->
    let st' := prun colname col D key ty st (map (fun i => PSync i false) (seq 0 (length (ps_cl st)))) in
    logops D (ps_db st') = logops D (ps_db st) /\
    forall c, In c (ps_cl st') -> pc_exec c = foreign (pc_cuid c) (logops D (ps_db st')).
  Proof.
    intros HP HQ st'. pose proof HP as [_ [_ [_ [d0 [Hin [Hd _]]]]]].
    assert (He : forall dx, In dx (s_dts (ps_db st)) -> dd_duid dx = D -> dd_end dx = dd_end d0).
    { intros dx Hx Hdx. pose proof HP as [[Hndd _ _ _] _]. f_equal. eapply (nodup_map_in_inj dd_duid); eauto. congruence. }
    destruct (quiet_round 0 (length (ps_cl st)) st (dd_end d0) (logops D (ps_db st)) HP HQ eq_refl He eq_refl ltac:(intros; lia))
      as [HP' [HL [_ [He' Hs]]]]. fold st' in HP', HL, He', Hs.
    split; [exact HL|]. intros c Hc. apply In_nth_error in Hc. destruct Hc as [j Hj].
    pose proof HP' as [Hinv' [_ [_ [d1 [Hin1 [Hd1 [_ Hcl]]]]]]]. rewrite Forall_forall in Hcl.
    destruct (Hcl c (nth_error_In _ _ Hj)) as [_ [_ [_ [_ [_ [_ C7]]]]]]. rewrite C7, (Hs j c Hj), <- (He' d1 Hin1 Hd1).
    destruct (logops_len D (ps_db st') d1 Hinv' Hin1 Hd1) as [_ Hlen]. rewrite <- Hlen, firstn_all. reflexivity.
  Qed.
End Live.

(* what a client has executed from others, together with its own operations of the log, is the log: with the convergence
   theorems of C01 (counter, map, list: executable orders of the same operations give the same state) clients that have
   caught up hold the same state *)
From Coq Require Import Permutation.
Lemma own_foreign_perm u L : Permutation (owns u L ++ foreign u L) L.
Proof.
  unfold owns, foreign. induction L as [|a L IH]; cbn [filter]; [constructor|].
  destruct (own_of u a); cbn [negb app]; [constructor; exact IH|].
  eapply Permutation_trans; [apply Permutation_sym, Permutation_middle|]. constructor. exact IH.
Qed.

Theorem quiet_round_everyone_has_the_log colname col D key ty st :
  PInv col D st -> quiet D st ->
  let st' := prun colname col D key ty st (map (fun i => PSync i false) (seq 0 (length (ps_cl st)))) in
  forall c, In c (ps_cl st') -> Permutation (owns (pc_cuid c) (logops D (ps_db st')) ++ pc_exec c) (logops D (ps_db st')).
Proof.
  intros HP HQ st' c Hc. destruct (quiet_round_converges colname col D key ty st HP HQ) as [_ H]. fold st' in H.
  rewrite (H c Hc). apply own_foreign_perm.
Qed.
