(* Facts about one exchange of the sync protocol (Model/Wire.v + Model/Server.v). *)
From Coq Require Import List NArith ZArith Bool Lia.
From Orda.Model Require Import Base Time Ops Datatype Server Wire.
From Orda.Proofs Require Import TimeFacts ServerFacts.
Import ListNotations.
Open Scope N_scope.

Lemma filter_len_le {A} (f : A -> bool) l : (length (filter f l) <= length l)%nat.
Proof. induction l as [|a l IH]; cbn; [lia|]. destruct (f a); cbn; lia. Qed.
Lemma in_skipn' {A} (l : list A) n x : In x (skipn n l) -> In x l.
Proof. revert n; induction l as [|a l IH]; intros [|n]; cbn; auto. intros H. right. eapply IH; eauto. Qed.

Section WireFacts.
  Variable St call J : Type.
  Variable k_init : St.
  Variable k_remote : St -> op -> St.
  Variable k_export : St -> J.

  Notation wdty := (@wdt St call J).
  Notation apply_pack := (apply_pack St call J k_init k_remote k_export).

  Lemma receive_cp fuel : forall (d : @dt St call J) ops,
    match receive St call J k_remote fuel d ops with
    | ROk _ _ _ d' | RError _ _ _ d' => d_cp d' = d_cp d /\ d_buf d' = d_buf d
    | _ => True
    end.
  Proof.
    assert (F : forall l (d : @dt St call J), d_cp (fold_left (remote_op St call J k_remote) l d) = d_cp d /\
                                               d_buf (fold_left (remote_op St call J k_remote) l d) = d_buf d).
    { induction l as [|o l IH]; intros d; cbn [fold_left]; [auto|]. destruct (IH (remote_op St call J k_remote d o)) as [A B].
      rewrite A, B. auto. }
    assert (Step : forall fuel (d : @dt St call J) o rest, is_tx o = false ->
              receive St call J k_remote (S fuel) d (o :: rest) = receive St call J k_remote fuel (remote_op St call J k_remote d o) rest).
    { intros f d o rest H. destruct o; try discriminate; reflexivity. }
    induction fuel as [|fuel IH]; intros d ops; [cbn; auto|].
    destruct ops as [|o rest]; [cbn; auto|].
    destruct (is_tx o) eqn:Et.
    - destruct o as [| i tag n | | | | | | | | | | |]; try discriminate. cbn [receive].
      destruct ((n <? 1)%Z || (Z.of_nat (length (OTx i tag n :: rest)) <? n)%Z); [auto|].
      destruct (n =? 1)%Z.
      + specialize (IH (remote_op St call J k_remote d (OTx i tag n)) (skipn (Z.to_nat n) (OTx i tag n :: rest))).
        destruct (receive St call J k_remote fuel _ _); auto.
      + destruct (F (tl (firstn (Z.to_nat n) (OTx i tag n :: rest))) d) as [A B].
        specialize (IH (fold_left (remote_op St call J k_remote) (tl (firstn (Z.to_nat n) (OTx i tag n :: rest))) d)
                       (skipn (Z.to_nat n) (OTx i tag n :: rest))).
        destruct (receive St call J k_remote fuel _ _); auto; rewrite <- A, <- B; exact IH.
    - rewrite Step by exact Et. specialize (IH (remote_op St call J k_remote d o) rest).
      cbn [remote_op d_cp d_buf] in IH. exact IH.
  Qed.

  (* C05: applying a (non-subscribe) response never moves the checkpoint backwards, and never
     touches the operations waiting to be pushed *)
  Theorem apply_pack_cp_monotone (w : wdty) (r : ppp) w' a :
    has (p_opt r) bit_subscribe = false ->
    apply_pack w r = AOk _ _ _ w' a ->
    sseq (d_cp (w_d w)) <= sseq (d_cp (w_d w')) /\ cseq (d_cp (w_d w)) <= cseq (d_cp (w_d w')) /\
    (dstate_eqb (w_state w) DueToSubscribeCreate = false -> d_buf (w_d w') = d_buf (w_d w)).
  Proof.
    intros Hs. unfold Wire.apply_pack. destruct (has (p_opt r) bit_error).
    - intros [= <- _]. repeat split; lia.
    - rewrite Hs. cbv zeta. cbn [andb negb]. rewrite andb_false_r.
      destruct (incoming (o_cuid (d_oid (w_d w))) false (d_cp (w_d w)) r) as [ops|]; [|discriminate].
      match goal with |- context [receive_ops St call J k_remote ?d ?o] =>
        pose proof (receive_cp (S (length o)) d o) as R; unfold receive_ops;
        destruct (receive St call J k_remote (S (length o)) d o) end; try discriminate;
        intros [= <- _]; cbn [w_d set_checkpoint d_cp d_buf] in *; destruct R as [R1 R2]; rewrite R1, R2;
        cbn [sseq cseq]; repeat split; try lia; auto.
  Qed.

  (* C07: outside a subscribe response a client never executes, as a remote operation, an operation
     that carries its own client id — wherever the log placed it among the others (it was stored by
     an exchange whose response was lost, and is applied here already) *)
  Theorem incoming_never_own own c r ops :
    incoming own false c r = Some ops -> Forall (fun o => o_cuid (op_id o) <> own) ops.
  Proof.
    unfold incoming. intros [= <-].
    apply Forall_forall. intros o Hin. apply in_skipn' in Hin. apply filter_In in Hin. destruct Hin as [_ Hin].
    intros E. rewrite E, TimeFacts.str_eqb_refl in Hin. discriminate.
  Qed.
End WireFacts.

(* what a client is sent: exactly the log entries after the checkpoint it presented, in log order *)
Theorem pulled_is_log_suffix db D e from :
  map od_sseq (ops_of (s_ops db) D) = nseq 1 (N.to_nat e) ->
  map od_sseq (get_ops db D from) = filter (fun s => from <=? s) (nseq 1 (N.to_nat e)) /\
  Forall (fun o => od_duid o = D) (get_ops db D from).
Proof. apply get_ops_sseqs. Qed.

(* C05 / C07: what a client executes out of a (non-subscribe) response is a SUFFIX of the response's foreign operations, in
   their order — never an own operation, never a reordering, never a gap in the middle; and it is all of them whenever
   the checkpoint arithmetic counts at least that many new foreign log entries *)
Theorem incoming_is_suffix own c r ops :
  incoming own false c r = Some ops ->
  exists pre, filter (fun o => negb (str_eqb (o_cuid (op_id o)) own)) (p_ops r) = pre ++ ops.
Proof.
  unfold incoming. intros [= <-].
  match goal with |- exists pre, ?l = pre ++ skipn ?n ?l => exists (firstn n l); symmetry; apply firstn_skipn end.
Qed.

Theorem incoming_takes_all own c r :
  let others := filter (fun o => negb (str_eqb (o_cuid (op_id o)) own)) (p_ops r) in
  (Z.of_nat (length others) <=
   wrap64 (Z.of_N (u64sub (u64sub (sseq (p_cp r)) (sseq c)) (u64sub (cseq (p_cp r)) (cseq c)))))%Z ->
  incoming own false c r = Some others.
Proof.
  intros others H. unfold incoming. fold others. f_equal.
  replace (length others - Z.to_nat (Z.max 0 _))%nat with 0%nat; [reflexivity|]. lia.
Qed.
