(* C05 / C13: the creating exchange.  A client that creates a datatype under a new key, pushing its snapshot operation,
   brings about exactly the state from which Protocol.v / ProtocolLate.v / ProtocolJoin.v / ProtocolFault.v start: the
   invariant of the protocol holds with the creator as the only client.  So the theorems of those files hold for every
   datatype from its creation on — in any store reached by honest requests. *)
From Coq Require Import List NArith ZArith Bool Lia.
From Orda.Model Require Import Base Time Ops Server Wire.
From Orda.Proofs Require Import TimeFacts MapFacts ServerFacts ClientOrder WireFacts ExchangeFacts Protocol ProtocolLate ProtocolJoin
     FaultFacts Recovery ProtocolFault.
Import ListNotations.
Open Scope N_scope.

Lemma no_ops_of db D : LogInv db -> find_dt db D = None -> forall o, In o (s_ops db) -> str_eqb (od_duid o) D = false.
Proof.
  intros [_ _ Horph _] Hf o Ho. destruct (str_eqb (od_duid o) D) eqn:E; [|reflexivity]. apply str_eqb_eq in E.
  destruct (Horph o Ho) as [d [Hd Hdu]]. exfalso. apply (find_dt_none _ _ Hf d Hd). congruence.
Qed.

Lemma filter_false {A} (f : A -> bool) l : (forall x, In x l -> f x = false) -> filter f l = [].
Proof.
  induction l as [|x l IH]; intros H; cbn; [reflexivity|]. rewrite (H x (or_introl eq_refl)). apply IH. intros y Hy. apply H. right. exact Hy.
Qed.
Lemma filter_true {A} (f : A -> bool) l : (forall x, In x l -> f x = true) -> filter f l = l.
Proof.
  induction l as [|x l IH]; intros H; cbn; [reflexivity|]. rewrite (H x (or_introl eq_refl)). f_equal. apply IH. intros y Hy. apply H. right. exact Hy.
Qed.

Lemma upsert_new l d : (forall x, In x l -> dd_duid x <> dd_duid d) -> upsert_dt l d = l ++ [d].
Proof.
  induction l as [|x l IH]; intros H; cbn; [reflexivity|].
  destruct (str_eqb (dd_duid x) (dd_duid d)) eqn:E; [apply str_eqb_eq in E; exfalso; apply (H x (or_introl eq_refl)); exact E|].
  f_equal. apply IH. intros y Hy. apply H. right. exact Hy.
Qed.

(* the answer to Create(key) with the snapshot operation, key and identifier unused so far *)
Lemma create_pack db colname col u req o1 :
  LogInv db -> find_dt db (p_duid req) = None -> find_dt_by_key db col (p_key req) = None ->
  p_opt req = bit_create -> p_ops req = [o1] -> oseq' o1 = 1 -> sseq (p_cp req) = 0 ->
  handle_pack db colname col u req =
  (mkSdb (s_cols db) (s_colctr db) (s_clients db)
         (s_dts db ++ [mkDdoc (p_duid req) (p_key req) col (p_type req) 1 [(u, mkCp 1 1)] []])
         (s_ops db ++ [mkOdoc (p_duid req) col 1 o1]),
   mkPpp (p_key req) (p_duid req) bit_create (mkCp 1 1) (p_type req) [] None,
   [mkPub colname (p_key req) u (p_duid req) 1]).
Proof.
  intros Hinv Hf Hk Hopt Hops Hseq Hs. set (D := p_duid req) in *.
  unfold handle_pack, handle_pack_f; fold finish_pack. rewrite Hopt.
  change (has bit_create bit_readonly) with false. cbn [andb].
  unfold evaluate. rewrite Hopt. change (has bit_create bit_create) with true. cbn [orb]. rewrite Hk. fold D. rewrite Hf.
  unfold decide. rewrite Hopt. change (has bit_create bit_create) with true. change (has bit_create bit_subscribe) with false. cbn [andb].
  rewrite finish_pack_plain. unfold finish_plain. cbn [clients_of dd_rw alookup dd_end cseq]. rewrite Hops.
  cbn [push_ops sseq cseq]. unfold oseq' in Hseq. rewrite Hseq. cbn [N.add N.eqb Pos.eqb app].
  rewrite Hopt. change (has bit_create bit_snapshot) with false. cbv iota.
  assert (Hno := no_ops_of db D Hinv Hf).
  assert (Eg : forall from, get_ops db D from = []).
  { intros from. unfold get_ops. rewrite filter_false; [reflexivity|]. intros o Ho. rewrite (Hno o Ho). reflexivity. }
  rewrite Eg. cbn [filter rev length N.of_nat].
  assert (Ep : purge_after (s_ops db) D 0 = s_ops db).
  { unfold purge_after. apply filter_true. intros o Ho. rewrite (Hno o Ho). reflexivity. }
  rewrite Ep. cbn [insert_ops od_duid od_sseq].
  assert (Eh : has_opdoc (s_ops db) D 1 = false).
  { unfold has_opdoc. destruct (existsb _ (s_ops db)) eqn:E; [|reflexivity]. apply existsb_exists in E. destruct E as [o [Ho E]].
    rewrite (Hno o Ho) in E. discriminate. }
  rewrite Eh. cbn [sseq cseq N.max set_client set_end dd_duid dd_key dd_col dd_type dd_end dd_rw dd_ro aset map].
  rewrite upsert_new; [reflexivity|]. intros x Hx. cbn [dd_duid]. apply (find_dt_none _ _ Hf x Hx).
Qed.

Section Create.
  Variables (colname : str) (col : N) (D key : str) (ty : N).

  Theorem creation_establishes_invariant db u o1 :
    LogInv db -> ClientInv db -> find_dt db D = None -> find_dt_by_key db col key = None ->
    o_cuid (op_id o1) = u -> oseq' o1 = 1 ->
    let req := mkPpp key D bit_create (mkCp 0 1) ty [o1] None in
    let '(db', resp, pubs) := handle_pack db colname col u req in
    p_err resp = None /\
    JInv col D key ty (mkLs (mkPs db' [mkPc u 1 1 [] []]) []).
  Proof.
    intros Hinv Hci Hf Hk Hu Hseq req.
    pose proof (create_pack db colname col u req o1 Hinv Hf Hk eq_refl eq_refl Hseq eq_refl) as E. cbn [p_duid p_key p_type req] in E.
    pose proof (handle_pack_spec db colname col u req Hinv) as Hpost.
    assert (Hh : honest_pack u req) by (unfold honest_pack; cbn; constructor; [exact Hu|constructor]).
    pose proof (handle_pack_client db colname col u req Hinv Hci Hh) as Hci'.
    rewrite E in *. cbn [fst] in Hci'. destruct Hpost as [Hinv' _]. split; [reflexivity|].
    set (d1 := mkDdoc D key col ty 1 [(u, mkCp 1 1)] []) in *.
    set (db' := mkSdb (s_cols db) (s_colctr db) (s_clients db) (s_dts db ++ [d1]) (s_ops db ++ [mkOdoc D col 1 o1])) in *.
    assert (Hin : In d1 (s_dts db')) by (cbn; apply in_or_app; right; left; reflexivity).
    assert (HL : logops D db' = [o1]).
    { unfold logops, logdocs, db'. cbn [s_ops]. rewrite ops_of_app.
      replace (ops_of (s_ops db) D) with (@nil odoc).
      - cbn. rewrite str_eqb_refl. reflexivity.
      - symmetry. apply filter_false. intros o Ho. apply (no_ops_of db D Hinv Hf o Ho). }
    apply JInv_of_LInv; [| |reflexivity].
    - apply LInv_of_PInv.
      + split; [exact Hinv'|]. split; [exact Hci'|]. split; [cbn; repeat constructor; intros []|].
        exists d1. split; [exact Hin|]. split; [reflexivity|]. split; [reflexivity|]. constructor; [|constructor].
        unfold cinv. cbv zeta. cbn [ps_db pc_s pc_cc pc_buf pc_exec pc_cuid dd_end d1 length N.of_nat]. rewrite HL.
        unfold rec_of, d1. cbn [dd_rw alookup]. rewrite str_eqb_refl. cbn [cseq skipn N.to_nat Pos.to_nat Pos.iter_op Nat.add filter length firstn map nseq].
        change (Pos.to_nat 1) with 1%nat. cbn [skipn firstn filter length]. unfold own_of. rewrite Hu, str_eqb_refl. cbn [negb N.of_nat length]. repeat split; try lia; constructor.
      + intros d0 Hd0 Hd. cbn [ps_db l_base] in Hd0 |- *.
        assert (d0 = d1).
        { pose proof Hinv' as [Hnd _ _ _]. eapply nodup_map_in_inj; eauto. }
        subst d0. cbn. unfold big. lia.
    - intros d Hd Hdu. cbn [ps_db l_base] in Hd.
      assert (d = d1) by (pose proof Hinv' as [Hnd _ _ _]; eapply nodup_map_in_inj; eauto). subst d. split; reflexivity.
  Qed.
End Create.

(* ---------- the whole life of a datatype ---------- *)
Section Life.
  Variables (colname : str) (col : N) (D key : str) (ty : N).

  (* any store reached by requests of honest clients; a client creates the datatype under an unused key with its snapshot
     operation; from then on ANY history: local operations, exchanges, lost, late and repeated answers, clients subscribing
     at any time, storage commands failing during any exchange.  In every state reached: the acknowledged store is
     consistent, every client has executed exactly the foreign operations of the log prefix it has seen, in log order,
     each once, and every client's operations are stored exactly once in issue order *)
  Theorem datatype_life rs u o1 evs :
    Forall honest rs ->
    let db := fold_left serve rs sdb_init in
    find_dt db D = None -> find_dt_by_key db col key = None -> o_cuid (op_id o1) = u -> oseq' o1 = 1 ->
    let '(db', resp, pubs) := handle_pack db colname col u (mkPpp key D bit_create (mkCp 0 1) ty [o1] None) in
    p_err resp = None /\
    let st := xrun colname col D key ty (mkLs (mkPs db' [mkPc u 1 1 [] []]) []) evs in
    let dbc := clean (dbof st) in
    LogInv dbc /\
    (forall c, In c (ps_cl (l_base st)) ->
       pc_exec c = foreign (pc_cuid c) (firstn (N.to_nat (pc_s c)) (logops D dbc))) /\
    (forall d w, In d (s_dts dbc) -> seqs_of (s_ops dbc) (dd_duid d) w = nseq 1 (N.to_nat (ack d w))) /\
    (forall d0, In d0 (s_dts dbc) -> dd_duid d0 = D -> forall c, In c (ps_cl (l_base st)) -> pc_s c = dd_end d0 ->
       pc_exec c = foreign (pc_cuid c) (logops D dbc)).
  Proof.
    intros Hh db Hf Hk Hu Hs.
    pose proof (creation_establishes_invariant colname col D key ty db u o1 (log_invariant rs) (client_order rs Hh) Hf Hk Hu Hs) as C.
    cbv zeta in C. destruct (handle_pack db colname col u _) as [[db' resp] pubs]. destruct C as [C1 C2]. split; [exact C1|].
    pose proof (XInv_of_JInv col D key ty _ C2) as X.
    destruct (faults_exactly_once colname col D key ty _ evs X) as [_ [A [B C]]]. cbv zeta in A, B, C.
    cbv zeta. split; [exact A|]. split; [exact B|]. split; [exact C|].
    exact (faults_quiescent colname col D key ty _ evs X).
  Qed.
End Life.
