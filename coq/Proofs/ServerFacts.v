(* The server's push-pull handler over the document store (Model/Server.v):
   the stored log of every datatype is a gapless total order (C06), refused requests change
   nothing (C16), at most one datatype per collection and key (C13), a request touches only its
   own datatype (C17), a publish is sent iff operations were stored (C18). *)
From Coq Require Import List NArith ZArith Bool Lia.
From Orda.Model Require Import Base Time Ops Server.
From Orda.Proofs Require Import TimeFacts MapFacts.
Import ListNotations.
Open Scope N_scope.

(* ---------- lists ---------- *)
Fixpoint nseq (start : N) (len : nat) : list N :=
  match len with O => [] | S k => start :: nseq (start + 1) k end.
Lemma nseq_app s a b : nseq s (a + b) = nseq s a ++ nseq (s + N.of_nat a) b.
Proof.
  revert s; induction a as [|a IH]; intros s; cbn [nseq Nat.add app].
  - rewrite N.add_0_r. reflexivity.
  - rewrite IH. do 3 f_equal. lia.
Qed.
Lemma nseq_length s n : length (nseq s n) = n.
Proof. revert s; induction n; intros; cbn; auto. Qed.
Lemma nseq_in s n x : In x (nseq s n) <-> s <= x < s + N.of_nat n.
Proof.
  revert s; induction n as [|n IH]; intros s; cbn [nseq In].
  - lia.
  - rewrite IH. lia.
Qed.

Lemma filter_app' {A} (f : A -> bool) l1 l2 : filter f (l1 ++ l2) = filter f l1 ++ filter f l2.
Proof. induction l1; cbn; [reflexivity|]. destruct (f a); cbn; congruence. Qed.

Lemma nodup_snoc' {A} (l : list A) x : NoDup l -> ~ In x l -> NoDup (l ++ [x]).
Proof.
  induction l as [|a l IH]; cbn; intros H Hn.
  - constructor; [intros []|constructor].
  - inversion H; subst. constructor.
    + rewrite in_app_iff. intros [Hi|[<-|[]]]; [contradiction|]. apply Hn. left; reflexivity.
    + apply IH; [assumption|]. intros Hi. apply Hn. right; exact Hi.
Qed.

(* ---------- store lookups ---------- *)
Lemma find_dt_spec db D d : find_dt db D = Some d -> In d (s_dts db) /\ dd_duid d = D.
Proof.
  unfold find_dt. intros H. apply find_some in H. destruct H as [H1 H2]. apply str_eqb_eq in H2. auto.
Qed.
Lemma find_dt_none db D : find_dt db D = None -> forall d, In d (s_dts db) -> dd_duid d <> D.
Proof.
  unfold find_dt. intros H d Hin E. apply (find_none _ _ H) in Hin. rewrite E, str_eqb_refl in Hin. discriminate.
Qed.
Lemma find_key_spec db c k d : find_dt_by_key db c k = Some d -> In d (s_dts db) /\ dd_col d = c /\ dd_key d = k.
Proof.
  unfold find_dt_by_key. intros H. apply find_some in H. destruct H as [H1 H2].
  apply andb_true_iff in H2. destruct H2 as [Ha Hb]. apply N.eqb_eq in Ha. apply str_eqb_eq in Hb. auto.
Qed.
Lemma find_key_none db c k : find_dt_by_key db c k = None ->
  forall d, In d (s_dts db) -> ~ (dd_col d = c /\ dd_key d = k).
Proof.
  unfold find_dt_by_key. intros H d Hin [E1 E2]. apply (find_none _ _ H) in Hin.
  rewrite E1, E2, N.eqb_refl, str_eqb_refl in Hin. discriminate.
Qed.

(* upsert on the DUID *)
Lemma upsert_duids l d :
  map dd_duid (upsert_dt l d) = if existsb (fun x => str_eqb (dd_duid x) (dd_duid d)) l
                                then map dd_duid l else map dd_duid l ++ [dd_duid d].
Proof.
  induction l as [|x l IH]; cbn; [reflexivity|].
  destruct (str_eqb (dd_duid x) (dd_duid d)) eqn:E; cbn.
  - apply str_eqb_eq in E. rewrite E. reflexivity.
  - rewrite IH. destruct (existsb _ l); reflexivity.
Qed.
Lemma upsert_in l d x : NoDup (map dd_duid l) ->
  (In x (upsert_dt l d) <-> x = d \/ (In x l /\ dd_duid x <> dd_duid d)).
Proof.
  induction l as [|y l IH]; cbn; intros Hnd.
  - intuition.
  - inversion Hnd as [|? ? Hn Hd]; subst. destruct (str_eqb (dd_duid y) (dd_duid d)) eqn:E; cbn.
    + apply str_eqb_eq in E. split.
      * intros [<-|Hin]; [left; reflexivity|]. right. split; [right; exact Hin|].
        intros E2. apply Hn. rewrite E, <- E2. apply in_map. exact Hin.
      * intros [->|[[<-|Hin] Hne]]; [left; reflexivity|congruence|right; exact Hin].
    + apply str_eqb_neq in E. rewrite (IH Hd). split.
      * intros [<-|[->|[Hin Hne]]]; [right; split; [left; reflexivity|exact E]|left; reflexivity|right; split; [right; exact Hin|exact Hne]].
      * intros [->|[[<-|Hin] Hne]]; [right; left; reflexivity|left; reflexivity|right; right; split; assumption].
Qed.
Lemma upsert_nodup l d : NoDup (map dd_duid l) -> NoDup (map dd_duid (upsert_dt l d)).
Proof.
  intros H. rewrite upsert_duids. destruct (existsb _ l) eqn:E; [exact H|].
  apply nodup_snoc'; [exact H|].
  intros Hin. apply in_map_iff in Hin. destruct Hin as [x [Ex Hx]].
  assert (existsb (fun x => str_eqb (dd_duid x) (dd_duid d)) l = true).
  { apply existsb_exists. exists x. split; [exact Hx|]. rewrite Ex. apply str_eqb_refl. }
  congruence.
Qed.

(* ---------- the log invariant ---------- *)
Definition ops_of (l : list odoc) (D : str) : list odoc := filter (fun o => str_eqb (od_duid o) D) l.

Record DtInv (ops : list odoc) (d : ddoc) : Prop := {
  di_sseq : map od_sseq (ops_of ops (dd_duid d)) = nseq 1 (N.to_nat (dd_end d));
  di_rw : forall c cp0, alookup str_eqb c (dd_rw d) = Some cp0 -> sseq cp0 <= dd_end d;
  di_ro : forall c cp0, alookup str_eqb c (dd_ro d) = Some cp0 -> sseq cp0 <= dd_end d
}.

Record LogInv (db : sdb) : Prop := {
  li_nodup : NoDup (map dd_duid (s_dts db));
  li_dt : forall d, In d (s_dts db) -> DtInv (s_ops db) d;
  li_orphan : forall o, In o (s_ops db) -> exists d, In d (s_dts db) /\ dd_duid d = od_duid o;
  li_key : forall d1 d2, In d1 (s_dts db) -> In d2 (s_dts db) ->
           dd_col d1 = dd_col d2 -> dd_key d1 = dd_key d2 -> d1 = d2
}.

Lemma loginv_init : LogInv sdb_init.
Proof. constructor; cbn; try constructor; intros; contradiction. Qed.

Lemma ops_of_app l1 l2 D : ops_of (l1 ++ l2) D = ops_of l1 D ++ ops_of l2 D.
Proof. apply filter_app'. Qed.

Lemma ops_of_all l D : Forall (fun o => od_duid o = D) l -> ops_of l D = l.
Proof.
  induction 1 as [|o l Ho H IH]; cbn; [reflexivity|]. rewrite Ho, str_eqb_refl. f_equal. exact IH.
Qed.
Lemma ops_of_none l D D' : D <> D' -> Forall (fun o => od_duid o = D) l -> ops_of l D' = [].
Proof.
  intros Hne. induction 1 as [|o l Ho H IH]; cbn; [reflexivity|].
  rewrite Ho. destruct (str_eqb D D') eqn:E; [apply str_eqb_eq in E; contradiction|exact IH].
Qed.

(* pushOperations *)
Lemma push_ops_spec D col ops : forall c acc c' out,
  push_ops D col c ops acc = Some (c', out) ->
  exists new, out = acc ++ new /\ map od_sseq new = nseq (sseq c + 1) (length new) /\
              sseq c' = sseq c + N.of_nat (length new) /\ cseq c <= cseq c' /\
              Forall (fun o => od_duid o = D /\ od_col o = col) new /\
              (length new <= length ops)%nat.
Proof.
  induction ops as [|o ops IH]; intros c acc c' out; cbn [push_ops].
  - intros [= <- <-]. exists []. rewrite app_nil_r. cbn. repeat split; try lia. constructor.
  - destruct (N.eqb_spec (cseq c + 1) (o_seq (op_id o))) as [E|E].
    + intros H. apply IH in H. destruct H as [new [H1 [H2 [H3 [H4 [H5 H6]]]]]]. cbn [sseq cseq] in *.
      exists (mkOdoc D col (sseq c + 1) o :: new). rewrite <- app_assoc in H1. cbn [app] in H1.
      split; [exact H1|]. cbn [map length nseq od_sseq]. split; [f_equal; exact H2|].
      split; [lia|]. split; [lia|]. split; [constructor; [cbn; auto|exact H5]|lia].
    + destruct (o_seq (op_id o) <=? cseq c); [|discriminate].
      intros H. apply IH in H. destruct H as [new [H1 [H2 [H3 [H4 [H5 H6]]]]]].
      exists new. cbn [length]. repeat split; auto; lia.
Qed.

Lemma has_opdoc_false stored D s :
  ~ In s (map od_sseq (ops_of stored D)) -> has_opdoc stored D s = false.
Proof.
  intros H. unfold has_opdoc. destruct (existsb _ stored) eqn:E; [|reflexivity].
  apply existsb_exists in E. destruct E as [o [Hin Ho]]. apply andb_true_iff in Ho. destruct Ho as [H1 H2].
  exfalso. apply H. apply N.eqb_eq in H2. rewrite <- H2. apply in_map. unfold ops_of. apply filter_In. auto.
Qed.

(* InsertMany of documents with fresh consecutive sequence numbers never meets a duplicate *)
Lemma insert_ops_fresh D : forall new stored e,
  map od_sseq (ops_of stored D) = nseq 1 (N.to_nat e) ->
  Forall (fun o => od_duid o = D) new ->
  map od_sseq new = nseq (e + 1) (length new) ->
  insert_ops stored new = (stored ++ new, true).
Proof.
  induction new as [|o new IH]; intros stored e Hs Hd Hn; cbn [insert_ops].
  - rewrite app_nil_r. reflexivity.
  - inversion Hd as [|? ? Ho Hd']; subst. cbn [map length nseq] in Hn. injection Hn as Hso Hn.
    rewrite has_opdoc_false.
    + rewrite (IH (stored ++ [o]) (e + 1)); [rewrite <- app_assoc; reflexivity| |exact Hd'|].
      * rewrite ops_of_app, map_app, Hs. cbn [ops_of filter]. rewrite str_eqb_refl. cbn [map].
        rewrite Hso. replace (N.to_nat (e + 1)) with (N.to_nat e + 1)%nat by lia.
        rewrite nseq_app. cbn [nseq]. do 2 f_equal. lia.
      * exact Hn.
    + rewrite Hs, Hso, nseq_in. lia.
Qed.

(* ---------- pulling: the last pulled operation is the end of the log ---------- *)
Fixpoint StrictInc (l : list N) : Prop :=
  match l with
  | [] => True
  | x :: l' => Forall (fun y => x < y) l' /\ StrictInc l'
  end.
Lemma nseq_inc s n : StrictInc (nseq s n).
Proof.
  revert s; induction n as [|n IH]; intros s; cbn; [exact I|]. split; [|apply IH].
  apply Forall_forall. intros y Hy. apply nseq_in in Hy. lia.
Qed.
Lemma filter_inc f l : StrictInc l -> StrictInc (filter f l).
Proof.
  induction l as [|x l IH]; cbn; [auto|]. intros [H1 H2]. destruct (f x); cbn; [|auto].
  split; [|auto]. apply Forall_forall. intros y Hy. apply filter_In in Hy. destruct Hy as [Hy _].
  rewrite Forall_forall in H1. auto.
Qed.

Lemma ins_by_sseq_last acc o : Forall (fun x => od_sseq x < od_sseq o) acc -> ins_by_sseq o acc = acc ++ [o].
Proof.
  induction 1 as [|x acc Hx H IH]; cbn; [reflexivity|].
  destruct (N.ltb_spec (od_sseq o) (od_sseq x)); [lia|]. rewrite IH. reflexivity.
Qed.
Lemma sort_sorted l : forall acc,
  StrictInc (map od_sseq (acc ++ l)) ->
  fold_left (fun a o => ins_by_sseq o a) l acc = acc ++ l.
Proof.
  induction l as [|o l IH]; intros acc H; cbn [fold_left].
  - rewrite app_nil_r. reflexivity.
  - rewrite ins_by_sseq_last.
    + rewrite IH; rewrite <- app_assoc; [reflexivity|exact H].
    + clear IH. induction acc as [|x acc IHa]; [constructor|]. cbn [app map StrictInc] in H. destruct H as [H1 H2].
      constructor; [|apply IHa; exact H2].
      rewrite Forall_forall in H1. apply H1. rewrite map_app. apply in_or_app. right. left. reflexivity.
Qed.

Lemma filter_filter {A} (f g : A -> bool) l : filter f (filter g l) = filter (fun x => g x && f x) l.
Proof. induction l as [|x l IH]; cbn; [reflexivity|]. destruct (g x); cbn; [destruct (f x); cbn; congruence|exact IH]. Qed.
Lemma map_filter_comm {A B} (h : A -> B) (p : B -> bool) l : map h (filter (fun x => p (h x)) l) = filter p (map h l).
Proof. induction l as [|x l IH]; cbn; [reflexivity|]. destruct (p (h x)); cbn; congruence. Qed.

Lemma get_ops_sseqs db D e from :
  map od_sseq (ops_of (s_ops db) D) = nseq 1 (N.to_nat e) ->
  map od_sseq (get_ops db D from) = filter (fun s => from <=? s) (nseq 1 (N.to_nat e)) /\
  Forall (fun o => od_duid o = D) (get_ops db D from).
Proof.
  intros H. unfold get_ops.
  assert (E : filter (fun o => str_eqb (od_duid o) D && (from <=? od_sseq o)) (s_ops db) =
              filter (fun o => from <=? od_sseq o) (ops_of (s_ops db) D)).
  { unfold ops_of. rewrite filter_filter. reflexivity. }
  rewrite E.
  assert (M : map od_sseq (filter (fun o => from <=? od_sseq o) (ops_of (s_ops db) D)) =
              filter (fun s => from <=? s) (nseq 1 (N.to_nat e))).
  { rewrite <- H. apply (map_filter_comm od_sseq (fun s => from <=? s)). }
  rewrite sort_sorted.
  - cbn [app]. split; [exact M|]. apply Forall_forall. intros o Ho. apply filter_In in Ho. destruct Ho as [Ho _].
    unfold ops_of in Ho. apply filter_In in Ho. destruct Ho as [_ Ho]. apply str_eqb_eq. exact Ho.
  - cbn [app]. rewrite M. apply filter_inc, nseq_inc.
Qed.

Lemma inc_last_max l : StrictInc l -> forall x, In x l -> x <= last l 0.
Proof.
  induction l as [|y l IH]; intros H x Hx; [destruct Hx|]. destruct H as [H1 H2].
  destruct l as [|z l'].
  - destruct Hx as [->|[]]. cbn. lia.
  - change (last (y :: z :: l') 0) with (last (z :: l') 0). destruct Hx as [->|Hx].
    + rewrite Forall_forall in H1. specialize (IH H2 z (or_introl eq_refl)). specialize (H1 z (or_introl eq_refl)). lia.
    + apply IH; assumption.
Qed.
Lemma last_in {A} (l : list A) d : l <> [] -> In (last l d) l.
Proof.
  induction l as [|x l IH]; [congruence|]. intros _. destruct l as [|y l']; [left; reflexivity|].
  right. apply IH. discriminate.
Qed.
Lemma rev_head_last {A} (l : list A) d : match rev l with [] => l = [] | x :: _ => x = last l d end.
Proof.
  induction l as [|a l IH] using rev_ind; [reflexivity|]. rewrite rev_app_distr. cbn. rewrite last_last. reflexivity.
Qed.

Lemma get_ops_last db D e from :
  map od_sseq (ops_of (s_ops db) D) = nseq 1 (N.to_nat e) -> 1 <= from ->
  match rev (get_ops db D from) with [] => True | lst :: _ => od_sseq lst = e end.
Proof.
  intros H Hf. destruct (get_ops_sseqs db D e from H) as [M _].
  pose proof (rev_head_last (get_ops db D from) (mkOdoc [] 0 0 (OSnap (opid_new [])))) as R.
  destruct (rev (get_ops db D from)) as [|lst r] eqn:Er; [exact I|].
  set (l := get_ops db D from) in *. set (dflt := mkOdoc [] 0 0 (OSnap (opid_new []))) in *.
  assert (Hne : l <> []) by (intro E0; rewrite E0 in Er; discriminate).
  assert (Hin : In (od_sseq lst) (map od_sseq l)) by (rewrite R; apply in_map, last_in; exact Hne).
  rewrite M in Hin. apply filter_In in Hin. destruct Hin as [Hin Hge]. apply nseq_in in Hin. apply N.leb_le in Hge.
  (* e itself is pulled, and nothing pulled exceeds the last one *)
  assert (He : In e (map od_sseq l)).
  { rewrite M. apply filter_In. split; [apply nseq_in; lia|apply N.leb_le; lia]. }
  assert (Hinc : StrictInc (map od_sseq l)) by (rewrite M; apply filter_inc, nseq_inc).
  pose proof (inc_last_max _ Hinc e He) as Hmax.
  assert (Hl : last (map od_sseq l) 0 = od_sseq lst).
  { rewrite R. clear -Hne. induction l as [|a l IH]; [congruence|]. destruct l as [|b l']; [reflexivity|].
    change (last (map od_sseq (a :: b :: l')) 0) with (last (map od_sseq (b :: l')) 0).
    change (last (a :: b :: l') dflt) with (last (b :: l') dflt). apply IH. discriminate. }
  lia.
Qed.

(* ---------- evaluate / decide ---------- *)
Lemma evaluate_spec db col cuid ro req c d :
  evaluate db col cuid ro req = (c, d) ->
  match d with
  | None => c = MatchNothing /\ find_dt db (p_duid req) = None /\
            (has (p_opt req) bit_create || has (p_opt req) bit_subscribe = true ->
             find_dt_by_key db col (p_key req) = None)
  | Some d0 => In d0 (s_dts db) /\
               match c with
               | MatchNothing => False
               | UsedDUID => dd_duid d0 = p_duid req
               | _ => dd_col d0 = col /\ dd_key d0 = p_key req
               end
  end.
Proof.
  unfold evaluate.
  destruct (has (p_opt req) bit_create || has (p_opt req) bit_subscribe) eqn:Eb.
  - destruct (find_dt_by_key db col (p_key req)) as [d0|] eqn:Ek.
    + apply find_key_spec in Ek. destruct Ek as [K1 [K2 K3]].
      destruct (N.eqb (dd_type d0) (p_type req)).
      * destruct (alookup str_eqb cuid (clients_of d0 ro)); intros [= <- <-]; auto.
      * intros [= <- <-]. auto.
    + destruct (find_dt db (p_duid req)) as [d0|] eqn:Ed; intros [= <- <-].
      * apply find_dt_spec in Ed. tauto.
      * auto.
  - destruct (find_dt db (p_duid req)) as [d0|] eqn:Ed; intros [= <- <-].
    + apply find_dt_spec in Ed. tauto.
    + repeat split; auto. discriminate.
Qed.

(* what the accepted actions mean *)
Lemma decide_spec db col cuid ro req c d :
  evaluate db col cuid ro req = (c, d) ->
  match decide col req c d with
  | ARefuse _ => True
  | ACreate => d = None /\ find_dt db (p_duid req) = None /\ find_dt_by_key db col (p_key req) = None
  | ASubscribe => exists d0, d = Some d0 /\ In d0 (s_dts db) /\ dd_col d0 = col /\ dd_key d0 = p_key req
  | ANormal => exists d0, d = Some d0 /\ In d0 (s_dts db) /\ dd_col d0 = col /\ dd_duid d0 = p_duid req
  end.
Proof.
  intros He. pose proof (evaluate_spec _ _ _ _ _ _ _ He) as S. unfold decide.
  assert (Hplain : has (p_opt req) bit_create = false -> has (p_opt req) bit_subscribe = false ->
                   c = MatchNothing \/ c = UsedDUID).
  { intros E1 E2. unfold evaluate in He. rewrite E1, E2 in He. cbn in He.
    destruct (find_dt db (p_duid req)); injection He as <- _; auto. }
  destruct (has (p_opt req) bit_subscribe) eqn:Esb, (has (p_opt req) bit_create) eqn:Ecr; cbn [andb];
    destruct c; destruct d as [d0|]; cbn in S;
    try exact I;
    try (destruct S as [_ []]; fail);
    try (destruct S as [S _]; discriminate S; fail);
    try (destruct (Hplain eq_refl eq_refl) as [Hc|Hc]; discriminate Hc; fail);
    repeat match goal with
           | |- context [str_eqb ?a ?b] => let E := fresh "E" in destruct (str_eqb a b) eqn:E; [apply str_eqb_eq in E|]
           | |- context [N.eqb ?a ?b] => destruct (N.eqb_spec a b)
           end; try exact I;
    try (destruct S as [_ [S2 S3]]; repeat split; auto; apply S3; reflexivity);
    try (destruct S as [S1 S2]; exists d0; repeat split; auto; tauto).
Qed.

(* ---------- the handler ---------- *)
Definition same_tables (db db' : sdb) : Prop :=
  s_cols db' = s_cols db /\ s_colctr db' = s_colctr db /\ s_clients db' = s_clients db.

(* what one handled pack guarantees *)
Definition pack_post (db : sdb) (colname : str) (col : N) (cuid : str) (out : sdb * ppp * list publish) : Prop :=
  let '(db', resp, pubs) := out in
  LogInv db' /\ same_tables db db' /\
  match p_err resp with
  | Some _ => db' = db /\ pubs = []                                         (* refused: nothing changed *)
  | None => exists d1 new,
      s_ops db' = s_ops db ++ new /\ s_dts db' = upsert_dt (s_dts db) d1 /\
      Forall (fun o => od_duid o = dd_duid d1 /\ od_col o = col) new /\ dd_col d1 = col /\
      pubs = match new with [] => [] | _ => [mkPub colname (dd_key d1) cuid (dd_duid d1) (dd_end d1)] end /\
      (* the document that is replaced (if any) is the same datatype: same collection, same key *)
      (forall x, In x (s_dts db) -> dd_duid x = dd_duid d1 -> dd_col x = col /\ dd_key x = dd_key d1)
  end.

Lemma nodup_map_in_inj {A B} (f : A -> B) l x y :
  NoDup (map f l) -> In x l -> In y l -> f x = f y -> x = y.
Proof.
  induction l as [|a l IH]; cbn; intros H Hx Hy E; [destruct Hx|]. inversion H as [|? ? Hn Hd]; subst.
  destruct Hx as [->|Hx], Hy as [->|Hy]; auto.
  - exfalso. apply Hn. rewrite E. apply in_map. exact Hy.
  - exfalso. apply Hn. rewrite <- E. apply in_map. exact Hx.
Qed.

Lemma set_client_fields d ro c x :
  dd_duid (set_client d ro c x) = dd_duid d /\ dd_key (set_client d ro c x) = dd_key d /\
  dd_col (set_client d ro c x) = dd_col d /\ dd_end (set_client d ro c x) = dd_end d.
Proof. unfold set_client. destruct ro; cbn; auto. Qed.

Lemma set_client_lookup d ro c x c' b :
  alookup str_eqb c' (clients_of (set_client d ro c x) b) =
  if Bool.eqb ro b && str_eqb c' c then Some x else alookup str_eqb c' (clients_of d b).
Proof.
  unfold set_client, clients_of. destruct ro, b; cbn; try (rewrite alookup_aset; destruct (str_eqb c' c); reflexivity);
    reflexivity.
Qed.

Lemma purge_noop l D e : map od_sseq (ops_of l D) = nseq 1 (N.to_nat e) -> purge_after l D e = l.
Proof.
  intros H. unfold purge_after.
  assert (A : forall o, In o l -> negb (str_eqb (od_duid o) D && (e <? od_sseq o)) = true).
  { intros o Ho. destruct (str_eqb (od_duid o) D) eqn:Ed; [|reflexivity]. cbn.
    assert (Hin : In (od_sseq o) (map od_sseq (ops_of l D))).
    { apply in_map. unfold ops_of. apply filter_In. auto. }
    rewrite H in Hin. apply nseq_in in Hin. destruct (N.ltb_spec e (od_sseq o)); [lia|reflexivity]. }
  clear H. induction l as [|o l IH]; cbn; [reflexivity|]. rewrite (A o (or_introl eq_refl)). f_equal.
  apply IH. intros x Hx. apply A. right. exact Hx.
Qed.

Lemma pulled_within db D e from :
  map od_sseq (ops_of (s_ops db) D) = nseq 1 (N.to_nat e) ->
  filter (fun o => od_sseq o <=? e) (get_ops db D from) = get_ops db D from.
Proof.
  intros H. destruct (get_ops_sseqs db D e from H) as [M _].
  assert (A : forall o, In o (get_ops db D from) -> (od_sseq o <=? e) = true).
  { intros o Ho. assert (Hin : In (od_sseq o) (map od_sseq (get_ops db D from))) by (apply in_map; exact Ho).
    rewrite M in Hin. apply filter_In in Hin. destruct Hin as [Hin _]. apply nseq_in in Hin. apply N.leb_le. lia. }
  clear M. revert A. generalize (get_ops db D from). intros l A.
  induction l as [|o l IH]; cbn; [reflexivity|]. rewrite (A o (or_introl eq_refl)). f_equal.
  apply IH. intros x Hx. apply A. right. exact Hx.
Qed.

(* the fault-free handler, with the fault dispatch folded away *)
Definition finish_plain (db : sdb) (colname : str) (col : N) (cuid : str) (req : ppp) (ro : bool)
           (d0 : ddoc) (duid : str) (ops : list op) (opt : N) (err_duid : str) : sdb * ppp * list publish :=
  let cp0 := match alookup str_eqb cuid (clients_of d0 ro) with Some c => c | None => mkCp 0 0 end in
  let err_after code := mkPpp (p_key req) err_duid (N.lor opt bit_error) (p_cp req) (p_type req) [] (Some code) in
  let pushed := if ro then Some (mkCp (dd_end d0) (cseq cp0), []) else push_ops duid col (mkCp (dd_end d0) (cseq cp0)) ops [] in
  match pushed with
  | None => (db, err_after err_missing_ops, [])
  | Some (cp1, newdocs) =>
      let pulled := if has (p_opt req) bit_snapshot then []
                    else filter (fun o => od_sseq o <=? dd_end d0) (get_ops db duid (sseq (p_cp req) + 1)) in
      let cp2 := match rev pulled with
                 | [] => cp1
                 | last :: _ => mkCp (od_sseq last + N.of_nat (length newdocs)) (cseq cp1)
                 end in
      let purged := match newdocs with [] => s_ops db | _ => purge_after (s_ops db) duid (dd_end d0) end in
      let '(stored, ok) := insert_ops purged newdocs in
      if ok then
        let d1 := set_end (set_client d0 ro cuid cp2) (sseq cp2) in
        let db' := mkSdb (s_cols db) (s_colctr db) (s_clients db) (upsert_dt (s_dts db) d1) stored in
        let resp := mkPpp (p_key req) duid opt cp2 (p_type req) (map od_op pulled) None in
        let pubs := match newdocs with
                    | [] => []
                    | _ => [mkPub colname (dd_key d1) cuid (dd_duid d1) (sseq cp2)]
                    end in
        (db', resp, pubs)
      else
        (mkSdb (s_cols db) (s_colctr db) (s_clients db) (s_dts db) stored,
         mkPpp (p_key req) err_duid (N.lor opt bit_error) cp2 (p_type req) (map od_op pulled) (Some err_abort_server), [])
  end.

Lemma finish_pack_plain db colname col cuid req ro d0 duid ops opt eduid :
  finish_pack db colname col cuid req ro d0 duid ops opt eduid =
  finish_plain db colname col cuid req ro d0 duid ops opt eduid.
Proof.
  unfold finish_pack, finish_pack_f, finish_plain.
  destruct (if ro then _ else _) as [[cp1 newdocs]|]; [|reflexivity].
  destruct (has (p_opt req) bit_snapshot); destruct newdocs; reflexivity.
Qed.

Lemma finish_spec db colname col cuid req ro d0 duid ops opt eduid :
  LogInv db -> duid = dd_duid d0 -> dd_col d0 = col ->
  (In d0 (s_dts db) \/
   (find_dt db (dd_duid d0) = None /\ find_dt_by_key db col (dd_key d0) = None /\
    dd_end d0 = 0 /\ dd_rw d0 = [] /\ dd_ro d0 = [])) ->
  pack_post db colname col cuid (finish_pack db colname col cuid req ro d0 duid ops opt eduid).
Proof.
  intros Hinv -> Hcol Hd0. destruct Hinv as [Hnd Hdt Horph Hkey].
  set (D := dd_duid d0). set (e := dd_end d0).
  assert (Hbase : LogInv db /\ same_tables db db) by (split; [constructor; assumption|repeat split]).
  (* the stored log of this datatype *)
  assert (Hs : map od_sseq (ops_of (s_ops db) D) = nseq 1 (N.to_nat e)).
  { destruct Hd0 as [Hin|[Hf [_ [He _]]]].
    - apply (di_sseq _ _ (Hdt d0 Hin)).
    - unfold e. rewrite He. cbn. replace (ops_of (s_ops db) D) with (@nil odoc); [reflexivity|].
      symmetry. unfold ops_of. destruct (filter _ (s_ops db)) as [|o l] eqn:Ef; [reflexivity|]. exfalso.
      assert (Ho : In o (filter (fun o => str_eqb (od_duid o) D) (s_ops db))) by (rewrite Ef; left; reflexivity).
      apply filter_In in Ho. destruct Ho as [Ho1 Ho2]. apply str_eqb_eq in Ho2.
      destruct (Horph o Ho1) as [d [Hd1 Hd2]]. apply (find_dt_none _ _ Hf d Hd1). rewrite Hd2, Ho2. reflexivity. }
  assert (Hcli : forall b c x, alookup str_eqb c (clients_of d0 b) = Some x -> sseq x <= e).
  { intros b c x Hl. destruct Hd0 as [Hin|[_ [_ [_ [Hrw Hro]]]]].
    - destruct b; cbn in Hl; [eapply (di_ro _ _ (Hdt d0 Hin))|eapply (di_rw _ _ (Hdt d0 Hin))]; eauto.
    - destruct b; cbn in Hl; rewrite ?Hrw, ?Hro in Hl; discriminate. }
  rewrite finish_pack_plain. unfold finish_plain.
  set (cp0 := match alookup str_eqb cuid (clients_of d0 ro) with Some c => c | None => mkCp 0 0 end).
  (* pushOperations *)
  assert (Hpush : forall cp1 newdocs,
            (if ro then Some (mkCp e (cseq cp0), []) else push_ops D col (mkCp e (cseq cp0)) ops []) = Some (cp1, newdocs) ->
            map od_sseq newdocs = nseq (e + 1) (length newdocs) /\ sseq cp1 = e + N.of_nat (length newdocs) /\
            Forall (fun o => od_duid o = D /\ od_col o = col) newdocs).
  { intros cp1 newdocs. destruct ro.
    - intros [= <- <-]. cbn. repeat split; [lia|constructor].
    - intros H. apply push_ops_spec in H. destruct H as [new [H1 [H2 [H3 [_ [H5 _]]]]]]. cbn [app sseq] in *. subst newdocs. auto. }
  fold e. fold D.
  destruct (if ro then Some (mkCp e (cseq cp0), []) else push_ops D col (mkCp e (cseq cp0)) ops []) as [[cp1 newdocs]|] eqn:Ep.
  2:{ cbn. destruct Hbase as [Hb1 Hb2]. split; [exact Hb1|split; [exact Hb2|split; reflexivity]]. }
  destruct (Hpush cp1 newdocs eq_refl) as [Hn1 [Hn2 Hn3]].
  (* pullOperations *)
  rewrite (pulled_within db D e (sseq (p_cp req) + 1) Hs), (purge_noop (s_ops db) D e Hs).
  replace (match newdocs with [] => s_ops db | _ :: _ => s_ops db end) with (s_ops db) by (destruct newdocs; reflexivity).
  set (pulled := if has (p_opt req) bit_snapshot then [] else get_ops db D (sseq (p_cp req) + 1)).
  set (cp2 := match rev pulled with [] => cp1 | lst :: _ => mkCp (od_sseq lst + N.of_nat (length newdocs)) (cseq cp1) end).
  assert (Hcp2 : sseq cp2 = e + N.of_nat (length newdocs)).
  { unfold cp2, pulled. destruct (has (p_opt req) bit_snapshot); [exact Hn2|].
    pose proof (get_ops_last db D e (sseq (p_cp req) + 1) Hs ltac:(lia)) as Hl.
    destruct (rev (get_ops db D (sseq (p_cp req) + 1))); [exact Hn2|]. cbn. lia. }
  (* commit *)
  assert (Hdup : Forall (fun o => od_duid o = D) newdocs).
  { eapply Forall_impl; [|exact Hn3]. intros o [H _]. exact H. }
  rewrite (insert_ops_fresh D newdocs (s_ops db) e Hs Hdup Hn1).
  set (d1 := set_end (set_client d0 ro cuid cp2) (sseq cp2)).
  destruct (set_client_fields d0 ro cuid cp2) as [F1 [F2 [F3 F4]]].
  assert (G1 : dd_duid d1 = D) by (unfold d1, set_end; cbn; exact F1).
  assert (G2 : dd_key d1 = dd_key d0) by (unfold d1, set_end; cbn; exact F2).
  assert (G3 : dd_col d1 = col) by (unfold d1, set_end; cbn; rewrite F3; exact Hcol).
  assert (G4 : dd_end d1 = e + N.of_nat (length newdocs)) by (unfold d1, set_end; cbn; exact Hcp2).
  assert (G5 : forall b, clients_of d1 b = clients_of (set_client d0 ro cuid cp2) b) by (intros []; reflexivity).
  cbn [p_err]. split; [|split].
  - (* the invariant of the new store *)
    constructor; cbn [s_dts s_ops].
    + apply upsert_nodup. exact Hnd.
    + intros x Hx. apply (upsert_in _ _ _ Hnd) in Hx. destruct Hx as [->|[Hx Hne]].
      * constructor.
        -- rewrite G1, G4, ops_of_app, map_app, Hs, (ops_of_all newdocs D Hdup), Hn1.
           replace (N.to_nat (e + N.of_nat (length newdocs))) with (N.to_nat e + length newdocs)%nat by lia.
           rewrite nseq_app. do 2 f_equal. lia.
        -- intros c x Hl. change (dd_rw d1) with (clients_of d1 false) in Hl. rewrite G5, set_client_lookup in Hl.
           rewrite G4. destruct (Bool.eqb ro false && str_eqb c cuid).
           ++ injection Hl as <-. lia.
           ++ apply Hcli in Hl. lia.
        -- intros c x Hl. change (dd_ro d1) with (clients_of d1 true) in Hl. rewrite G5, set_client_lookup in Hl.
           rewrite G4. destruct (Bool.eqb ro true && str_eqb c cuid).
           ++ injection Hl as <-. lia.
           ++ apply Hcli in Hl. lia.
      * rewrite G1 in Hne. destruct (Hdt x Hx) as [X1 X2 X3]. constructor; auto.
        rewrite ops_of_app, (ops_of_none newdocs D (dd_duid x)); [rewrite app_nil_r; exact X1| |exact Hdup].
        intros E. apply Hne. symmetry. exact E.
    + intros o Ho. apply in_app_or in Ho. destruct Ho as [Ho|Ho].
      * destruct (Horph o Ho) as [d [Hd1 Hd2]].
        destruct (str_eqb (dd_duid d) D) eqn:Ed.
        -- apply str_eqb_eq in Ed. exists d1. split; [apply (upsert_in _ _ _ Hnd); left; reflexivity|congruence].
        -- apply str_eqb_neq in Ed. exists d. split; [apply (upsert_in _ _ _ Hnd); right; split; [exact Hd1|rewrite G1; exact Ed]|exact Hd2].
      * exists d1. split; [apply (upsert_in _ _ _ Hnd); left; reflexivity|].
        rewrite Forall_forall in Hdup. rewrite G1. symmetry. apply Hdup. exact Ho.
    + assert (Hone : forall x, In x (s_dts db) -> dd_duid x <> D -> dd_col x = col -> dd_key x = dd_key d0 -> False).
      { intros x Hx Hne Hc Hk. destruct Hd0 as [Hin|[_ [Hfk _]]].
        - apply Hne. rewrite (Hkey x d0 Hx Hin); [reflexivity|congruence|exact Hk].
        - apply (find_key_none _ _ _ Hfk x Hx). auto. }
      intros x1 x2 H1 H2 Hc Hk. apply (upsert_in _ _ _ Hnd) in H1. apply (upsert_in _ _ _ Hnd) in H2.
      destruct H1 as [->|[H1 N1]], H2 as [->|[H2 N2]]; auto.
      * exfalso. rewrite G1 in N2. apply (Hone x2 H2 N2); congruence.
      * exfalso. rewrite G1 in N1. apply (Hone x1 H1 N1); congruence.
  - repeat split.
  - assert (Hsame : forall x, In x (s_dts db) -> dd_duid x = dd_duid d1 -> dd_col x = col /\ dd_key x = dd_key d1).
    { intros x Hx Ex. rewrite G1 in Ex. rewrite G2. destruct Hd0 as [Hin|[Hf _]].
      - assert (x = d0) by (eapply nodup_map_in_inj; eauto). subst x. auto.
      - exfalso. apply (find_dt_none _ _ Hf x Hx). exact Ex. }
    exists d1, newdocs. repeat split; auto.
    all: try (eapply Forall_impl; [|exact Hn3]; intros o [H1 H2]; rewrite G1; auto; fail).
    all: try (destruct newdocs; [reflexivity|]; rewrite G1, G4, Hcp2; reflexivity).
    all: try (apply Hsame; assumption).
Qed.

Lemma refused_post db colname col cuid resp :
  LogInv db -> p_err resp <> None -> pack_post db colname col cuid (db, resp, []).
Proof.
  intros H He. unfold pack_post. split; [exact H|]. split; [repeat split|].
  destruct (p_err resp); [auto|congruence].
Qed.

Theorem handle_pack_spec db colname col cuid req :
  LogInv db -> pack_post db colname col cuid (handle_pack db colname col cuid req).
Proof.
  intros Hinv. unfold handle_pack, handle_pack_f; fold finish_pack.
  destruct (has (p_opt req) bit_readonly && _) eqn:Ev.
  - apply refused_post; [exact Hinv|discriminate].
  - destruct (evaluate db col cuid (has (p_opt req) bit_readonly) req) as [c d] eqn:He.
    pose proof (decide_spec _ _ _ _ _ _ _ He) as S.
    destruct (decide col req c d) as [| | |code].
    + destruct S as [_ [S2 S3]]. apply finish_spec; auto. right. cbn. auto.
    + destruct S as [d0 [-> [S1 [S2 S3]]]]. apply finish_spec; auto.
    + destruct S as [d0 [-> [S1 [S2 S3]]]]. apply finish_spec; auto.
    + destruct d; apply refused_post; auto; discriminate.
Qed.

(* ---------- arbitrary sequences of requests ---------- *)
Inductive request :=
| RCollection (name : str)
| RClient (col cuid : str)
| RPushPull (col cuid : str) (packs : list ppp).

Definition serve (db : sdb) (r : request) : sdb :=
  match r with
  | RCollection name => create_collection db name
  | RClient col cuid => fst (process_client db col cuid)
  | RPushPull col cuid packs => fst (process_pushpull db col cuid packs)
  end.

Lemma fold_packs_inv colname col cuid packs : forall db acc,
  LogInv db ->
  LogInv (fst (fold_left (fun '(db, acc) req =>
                 let '(db', resp, pubs) := handle_pack db colname col cuid req in
                 (db', acc ++ [(resp, pubs)])) packs (db, acc))).
Proof.
  induction packs as [|p packs IH]; intros db acc H; cbn [fold_left]; [exact H|].
  pose proof (handle_pack_spec db colname col cuid p H) as S.
  destruct (handle_pack db colname col cuid p) as [[db' resp] pubs]. apply IH. apply S.
Qed.

Lemma loginv_tables db db' :
  s_dts db' = s_dts db -> s_ops db' = s_ops db -> LogInv db -> LogInv db'.
Proof. intros E1 E2 [A B C D]. constructor; rewrite ?E1, ?E2; auto. Qed.

Theorem serve_inv db r : LogInv db -> LogInv (serve db r).
Proof.
  intros H. destruct r as [name|col cuid|col cuid packs]; cbn [serve].
  - unfold create_collection. destruct (alookup str_eqb name (s_cols db)); [exact H|].
    eapply loginv_tables; [| |exact H]; reflexivity.
  - unfold process_client. destruct (alookup str_eqb col (s_cols db)); [|exact H].
    destruct (alookup str_eqb cuid (s_clients db)) as [ccol|]; [destruct (N.eqb ccol n); exact H|].
    eapply loginv_tables; [| |exact H]; reflexivity.
  - unfold process_pushpull, process_pushpull_f; fold handle_pack. destruct (alookup str_eqb col (s_cols db)) as [n|]; [|exact H].
    destruct (alookup str_eqb cuid (s_clients db)) as [ccol|]; [|exact H].
    destruct (N.eqb ccol n); [|exact H].
    pose proof (fold_packs_inv col n cuid packs db [] H) as F.
    destruct (fold_left _ packs (db, [])) as [db' out]. exact F.
Qed.

(* C06: after ANY sequence of requests — any packs, checkpoints, option bits, operations — every
   datatype's stored log carries server sequence numbers 1..End in order, no checkpoint exceeds End,
   no operation is stored without its datatype, and a (collection, key) names at most one datatype *)
Theorem log_invariant rs : LogInv (fold_left serve rs sdb_init).
Proof.
  assert (G : forall rs db, LogInv db -> LogInv (fold_left serve rs db)).
  { clear rs. induction rs as [|r rs IH]; intros db H; cbn; [exact H|]. apply IH, serve_inv, H. }
  apply G, loginv_init.
Qed.

(* ---------- C13: the contract of create / subscribe / subscribe-or-create ---------- *)
Definition resp_of (out : sdb * ppp * list publish) : ppp := snd (fst out).
Definition db_of (out : sdb * ppp * list publish) : sdb := fst (fst out).

Lemma refused_by_decide db colname col cuid req c d code :
  (has (p_opt req) bit_readonly && (has (p_opt req) bit_create || negb match p_ops req with [] => true | _ => false end)) = false ->
  evaluate db col cuid (has (p_opt req) bit_readonly) req = (c, d) ->
  decide col req c d = ARefuse code ->
  handle_pack db colname col cuid req = (db, error_resp req code, []).
Proof. intros Hv He Hd. unfold handle_pack, handle_pack_f; fold finish_pack. rewrite Hv, He, Hd. reflexivity. Qed.

(* subscribing to a key that does not exist is refused with PushPullNoDatatypeToSubscribe, nothing stored *)
Theorem subscribe_missing_refused db colname col cuid req :
  has (p_opt req) bit_subscribe = true -> has (p_opt req) bit_create = false ->
  find_dt_by_key db col (p_key req) = None ->
  exists code, handle_pack db colname col cuid req = (db, error_resp req code, []).
Proof.
  intros Hs Hc Hk. unfold handle_pack, handle_pack_f; fold finish_pack.
  destruct (has (p_opt req) bit_readonly && _); [eexists; reflexivity|].
  unfold evaluate. rewrite Hs, Hc, Hk. cbn [orb].
  destruct (find_dt db (p_duid req)); unfold decide; rewrite Hs, Hc; cbn; eexists; reflexivity.
Qed.

(* creating a key that exists — with another type, or with the same type by anybody but the creator
   repeating its own request — is refused with PushPullDuplicateKey, nothing stored *)
Theorem create_existing_refused db colname col cuid req d0 :
  has (p_opt req) bit_create = true -> has (p_opt req) bit_subscribe = false ->
  find_dt_by_key db col (p_key req) = Some d0 ->
  dd_duid d0 <> p_duid req \/ dd_type d0 <> p_type req ->
  exists code, handle_pack db colname col cuid req = (db, error_resp req code, []).
Proof.
  intros Hc Hs Hk Hdiff. unfold handle_pack, handle_pack_f; fold finish_pack.
  destruct (has (p_opt req) bit_readonly && _); [eexists; reflexivity|].
  unfold evaluate. rewrite Hs, Hc, Hk. cbn [orb].
  destruct (N.eqb_spec (dd_type d0) (p_type req)) as [Et|Et].
  - destruct Hdiff as [Hd|Hd]; [|contradiction].
    destruct (alookup str_eqb cuid (clients_of d0 (has (p_opt req) bit_readonly))); unfold decide; rewrite Hs, Hc; cbn.
    + destruct (str_eqb (p_duid req) (dd_duid d0)) eqn:E; [apply str_eqb_eq in E; congruence|]. eexists; reflexivity.
    + eexists; reflexivity.
  - unfold decide; rewrite Hs, Hc; cbn. eexists; reflexivity.
Qed.

(* any entry request (create, subscribe or both) on a key holding another type is refused *)
Theorem type_mismatch_refused db colname col cuid req d0 :
  has (p_opt req) bit_create || has (p_opt req) bit_subscribe = true ->
  find_dt_by_key db col (p_key req) = Some d0 -> dd_type d0 <> p_type req ->
  exists code, handle_pack db colname col cuid req = (db, error_resp req code, []).
Proof.
  intros Hb Hk Ht. unfold handle_pack, handle_pack_f; fold finish_pack.
  destruct (has (p_opt req) bit_readonly && _); [eexists; reflexivity|].
  unfold evaluate. rewrite Hb, Hk.
  destruct (N.eqb_spec (dd_type d0) (p_type req)) as [Et|Et]; [contradiction|].
  unfold decide. destruct (has (p_opt req) bit_subscribe), (has (p_opt req) bit_create); cbn in *; try discriminate;
    eexists; reflexivity.
Qed.

(* a plain push-pull for an unknown DUID, or for the DUID of a datatype of another collection, is refused *)
Theorem foreign_or_unknown_refused db colname col cuid req :
  has (p_opt req) bit_create = false -> has (p_opt req) bit_subscribe = false ->
  (find_dt db (p_duid req) = None \/ exists d0, find_dt db (p_duid req) = Some d0 /\ dd_col d0 <> col) ->
  exists code, handle_pack db colname col cuid req = (db, error_resp req code, []).
Proof.
  intros Hc Hs H. unfold handle_pack, handle_pack_f; fold finish_pack.
  destruct (has (p_opt req) bit_readonly && _); [eexists; reflexivity|].
  unfold evaluate. rewrite Hs, Hc. cbn [orb].
  destruct H as [H|[d0 [H Hne]]]; rewrite H; unfold decide; rewrite Hs, Hc; cbn.
  - eexists; reflexivity.
  - destruct (N.eqb_spec (dd_col d0) col); [contradiction|]. eexists; reflexivity.
Qed.

(* ---------- corollaries used by the property files ---------- *)
Theorem refused_changes_nothing db colname col cuid req :
  LogInv db ->
  let '(db', resp, pubs) := handle_pack db colname col cuid req in
  p_err resp <> None -> db' = db /\ pubs = [].
Proof.
  intros H. pose proof (handle_pack_spec db colname col cuid req H) as S.
  destruct (handle_pack db colname col cuid req) as [[db' resp] pubs]. destruct S as [_ [_ S]].
  destruct (p_err resp); [intros _; exact S|congruence].
Qed.

Theorem rpc_refusal_changes_nothing db col cuid packs e :
  snd (process_pushpull db col cuid packs) = inr e -> fst (process_pushpull db col cuid packs) = db.
Proof.
  unfold process_pushpull, process_pushpull_f; fold handle_pack.
  destruct (alookup str_eqb col (s_cols db)); [|reflexivity].
  destruct (alookup str_eqb cuid (s_clients db)); [|reflexivity].
  destruct (N.eqb n0 n); [|reflexivity].
  destruct (fold_left _ packs (db, [])). cbn. discriminate.
Qed.

Theorem frame db colname col cuid req :
  LogInv db ->
  let '(db', resp, pubs) := handle_pack db colname col cuid req in
  (forall o, In o (s_ops db) -> In o (s_ops db')) /\
  (forall o, In o (s_ops db') -> In o (s_ops db) \/ od_col o = col) /\
  (forall x, In x (s_dts db) -> dd_col x <> col -> In x (s_dts db')) /\
  (forall x, In x (s_dts db') -> In x (s_dts db) \/ dd_col x = col).
Proof.
  intros H. pose proof (handle_pack_spec db colname col cuid req H) as S.
  destruct (handle_pack db colname col cuid req) as [[db' resp] pubs]. destruct S as [_ [_ S]].
  destruct (p_err resp).
  - destruct S as [-> _]. repeat split; auto.
  - destruct S as [d1 [new [E1 [E2 [F [Hc [_ Hsame]]]]]]]. rewrite E1, E2. repeat split.
    + intros o Ho. apply in_or_app. left; exact Ho.
    + intros o Ho. apply in_app_or in Ho. destruct Ho as [Ho|Ho]; [left; exact Ho|right].
      rewrite Forall_forall in F. apply F. exact Ho.
    + intros x Hx Hne. apply (upsert_in _ _ _ (li_nodup _ H)). right. split; [exact Hx|].
      intros E. apply Hne. apply (Hsame x Hx E).
    + intros x Hx. apply (upsert_in _ _ _ (li_nodup _ H)) in Hx. destruct Hx as [->|[Hx _]]; auto.
Qed.

Theorem foreign_client_refused db col cuid packs ccol n :
  alookup str_eqb col (s_cols db) = Some n -> alookup str_eqb cuid (s_clients db) = Some ccol -> ccol <> n ->
  process_pushpull db col cuid packs = (db, inr NoPermission).
Proof.
  intros H1 H2 Hne. unfold process_pushpull, process_pushpull_f; fold handle_pack. rewrite H1, H2.
  destruct (N.eqb_spec ccol n); [contradiction|reflexivity].
Qed.

(* distinct collection names get distinct numbers *)
Definition ColInv (db : sdb) : Prop :=
  NoDup (map snd (s_cols db)) /\ (forall nm n, In (nm, n) (s_cols db) -> n <= s_colctr db).

Lemma fold_packs_tables colname col cuid packs : forall db acc,
  LogInv db ->
  same_tables db (fst (fold_left (fun '(db, acc) req =>
                 let '(db', resp, pubs) := handle_pack db colname col cuid req in
                 (db', acc ++ [(resp, pubs)])) packs (db, acc))).
Proof.
  induction packs as [|p packs IH]; intros db acc H; cbn [fold_left]; [repeat split|].
  pose proof (handle_pack_spec db colname col cuid p H) as S.
  destruct (handle_pack db colname col cuid p) as [[db' resp] pubs]. destruct S as [S1 [[T1 [T2 T3]] _]].
  destruct (IH db' (acc ++ [(resp, pubs)]) S1) as [U1 [U2 U3]]. repeat split; congruence.
Qed.

Lemma colinv_serve db r : LogInv db -> ColInv db -> ColInv (serve db r).
Proof.
  intros HL [H1 H2]. destruct r as [name|col cuid|col cuid packs]; cbn [serve].
  - unfold create_collection. destruct (alookup str_eqb name (s_cols db)); [split; assumption|]. split; cbn.
    + rewrite map_app. cbn. apply nodup_snoc'; [exact H1|].
      intros Hin. apply in_map_iff in Hin. destruct Hin as [[nm n] [E Hin]]. cbn in E. apply H2 in Hin. lia.
    + intros nm n Hin. apply in_app_or in Hin. destruct Hin as [Hin|[[= _ <-]|[]]]; [apply H2 in Hin|]; lia.
  - unfold process_client. destruct (alookup str_eqb col (s_cols db)); [|split; assumption].
    destruct (alookup str_eqb cuid (s_clients db)) as [c|]; [destruct (N.eqb c n)|]; split; assumption.
  - unfold process_pushpull, process_pushpull_f; fold handle_pack. destruct (alookup str_eqb col (s_cols db)) as [n|]; [|split; assumption].
    destruct (alookup str_eqb cuid (s_clients db)) as [c|]; [|split; assumption].
    destruct (N.eqb c n); [|split; assumption].
    pose proof (fold_packs_tables col n cuid packs db [] HL) as [T1 [T2 _]].
    destruct (fold_left _ packs (db, [])) as [db' out]. cbn in *. unfold ColInv. rewrite T1, T2. split; assumption.
Qed.

Theorem collection_numbers_injective (rs : list request) n1 n2 num :
  let db := fold_left serve rs sdb_init in
  In (n1, num) (s_cols db) -> In (n2, num) (s_cols db) -> n1 = n2.
Proof.
  intros db H1 H2.
  assert (G : forall rs db0, LogInv db0 -> ColInv db0 -> LogInv (fold_left serve rs db0) /\ ColInv (fold_left serve rs db0)).
  { clear. induction rs as [|r rs IH]; intros db0 HL HC; cbn; [auto|]. apply IH; [apply serve_inv, HL|apply colinv_serve; assumption]. }
  destruct (G rs sdb_init loginv_init) as [_ [Hnd _]]; [split; [constructor|intros ? ? []]|].
  assert (E : (n1, num) = (n2, num)) by (eapply (nodup_map_in_inj snd); eauto).
  congruence.
Qed.

Theorem publish_iff_push db colname col cuid req :
  LogInv db ->
  let '(db', resp, pubs) := handle_pack db colname col cuid req in
  (s_ops db' = s_ops db -> pubs = []) /\
  (s_ops db' <> s_ops db ->
     exists d1, In d1 (s_dts db') /\ dd_col d1 = col /\
                pubs = [mkPub colname (dd_key d1) cuid (dd_duid d1) (dd_end d1)]).
Proof.
  intros H. pose proof (handle_pack_spec db colname col cuid req H) as S.
  destruct (handle_pack db colname col cuid req) as [[db' resp] pubs]. destruct S as [_ [_ S]].
  destruct (p_err resp).
  - destruct S as [-> ->]. split; [reflexivity|congruence].
  - destruct S as [d1 [new [E1 [E2 [F [Hc [Hp _]]]]]]]. split.
    + intros E. rewrite E1 in E. destruct new; [exact Hp|].
      exfalso. apply (f_equal (@length _)) in E. rewrite app_length in E. cbn in E. lia.
    + intros Hne. destruct new as [|o new]; [rewrite E1, app_nil_r in Hne; congruence|].
      exists d1. split; [|split; [exact Hc|exact Hp]].
      rewrite E2. apply (upsert_in _ _ _ (li_nodup _ H)). left; reflexivity.
Qed.

Theorem unique_key (rs : list request) d1 d2 :
  let db := fold_left serve rs sdb_init in
  In d1 (s_dts db) -> In d2 (s_dts db) -> dd_col d1 = dd_col d2 -> dd_key d1 = dd_key d2 -> d1 = d2.
Proof. intros db. exact (li_key db (log_invariant rs) d1 d2). Qed.
