(* C11 for the three modelled kernels *)
From Coq Require Import List NArith ZArith Bool Lia.
From Orda.Model Require Import Base Time Ops Counter Map List Snapshot Server SnapSrv.
From Orda.Proofs Require Import TimeFacts MapFacts MapConv ServerFacts SnapshotFacts SnapSrvFacts.
Import ListNotations.
Open Scope N_scope.

Definition always {A} (_ : A) : Prop := True.

(* ---------- counter and list: the marshalled form restores the state exactly ---------- *)
Section Exact.
  Variable St : Type.
  Variable k_init : St.
  Variable k_remote : St -> op -> St.
  Variable k_marshal : St -> jsnap.
  Variable k_unmarshal : jsnap -> St.
  Variable k_view : St -> val.
  Hypothesis roundtrip : forall s, k_unmarshal (k_marshal s) = s.

  Notation srun := (srun St k_init k_remote k_marshal k_unmarshal k_view).
  Notation replay := (replay St k_init k_remote).

  Theorem exact_snapshot steps sn : In sn (ss_snaps (snd (srun steps))) ->
    exists d, find_dt (fst (srun steps)) (sn_duid sn) = Some d /\ sn_col sn = dd_col d /\ sn_sseq sn <= dd_end d /\
              k_unmarshal (sn_snap sn) = replay (fst (srun steps)) (sn_duid sn) (sn_sseq sn).
  Proof.
    apply (snapshot_is_replay St k_init k_remote k_marshal k_unmarshal k_view always eq); unfold always; auto; try congruence.
  Qed.
  Theorem exact_document steps r : In r (ss_real (snd (srun steps))) ->
    exists d, In d (s_dts (fst (srun steps))) /\ alookup str_eqb (rl_col r) (s_cols (fst (srun steps))) = Some (dd_col d) /\
              dd_key d = rl_key r /\ rl_ver r <= dd_end d /\
              rl_view r = k_view (replay (fst (srun steps)) (dd_duid d) (rl_ver r)).
  Proof.
    apply (user_document_is_view St k_init k_remote k_marshal k_unmarshal k_view always eq); unfold always; auto; try congruence.
  Qed.
  Theorem exact_version steps later col key v1 :
    real_ver (snd (srun steps)) col key = Some v1 ->
    exists v2, real_ver (snd (srun (steps ++ later))) col key = Some v2 /\ v1 <= v2.
  Proof.
    apply (version_never_decreases St k_init k_remote k_marshal k_unmarshal k_view always eq); unfold always; auto; try congruence.
  Qed.
  Theorem exact_rebuild steps D d :
    find_dt (fst (srun steps)) D = Some d ->
    latest_datatype St k_init k_remote k_unmarshal (fst (srun steps)) (snd (srun steps)) d =
    (replay (fst (srun steps)) D (dd_end d), dd_end d).
  Proof.
    intros Hf.
    pose proof (rebuild_equals_replay St k_init k_remote k_marshal k_unmarshal k_view always eq) as R.
    specialize (R I (fun _ _ _ => I) (fun _ _ => I) (fun s => eq_refl) (fun a b c H1 H2 => eq_trans H1 H2)).
    specialize (R (fun a b o H => f_equal (fun x => k_remote x o) H) (fun s _ => roundtrip s) steps D d Hf).
    destruct (latest_datatype _ _ _ _ _ _ _) as [st v]. destruct R as [-> ->]. reflexivity.
  Qed.
End Exact.

Definition counter_srun := srun cstate c_init c_exec_remote c_marshal c_unmarshal c_view.
Definition list_srun := srun lstate l_init l_exec_remote l_marshal l_unmarshal l_view.
Definition map_srun := srun mstate m_init m_exec_remote m_marshal m_unmarshal m_view.

(* ---------- map: a Go map has no order; the restored map has the same entry under every key ---------- *)
Lemma m_equiv_refl s : m_equiv s s.
Proof. split; auto. Qed.
Lemma m_equiv_trans a b c : m_equiv a b -> m_equiv b c -> m_equiv a c.
Proof. intros [H1 H2] [H3 H4]. split; [intros k; rewrite H1; apply H3|congruence]. Qed.

Theorem map_snapshot steps sn : In sn (ss_snaps (snd (map_srun steps))) ->
  exists d, find_dt (fst (map_srun steps)) (sn_duid sn) = Some d /\ sn_col sn = dd_col d /\ sn_sseq sn <= dd_end d /\
            m_equiv (m_unmarshal (sn_snap sn)) (replay mstate m_init m_exec_remote (fst (map_srun steps)) (sn_duid sn) (sn_sseq sn)).
Proof.
  apply (snapshot_is_replay mstate m_init m_exec_remote m_marshal m_unmarshal m_view m_wf m_equiv);
    auto using m_init_wf, m_exec_remote_wf, unmarshal_wf, m_equiv_refl, map_equiv_remote, map_roundtrip.
  apply m_equiv_trans.
Qed.
Theorem map_document steps r : In r (ss_real (snd (map_srun steps))) ->
  exists d, In d (s_dts (fst (map_srun steps))) /\ alookup str_eqb (rl_col r) (s_cols (fst (map_srun steps))) = Some (dd_col d) /\
            dd_key d = rl_key r /\ rl_ver r <= dd_end d /\
            rl_view r = m_view (replay mstate m_init m_exec_remote (fst (map_srun steps)) (dd_duid d) (rl_ver r)).
Proof.
  apply (user_document_is_view mstate m_init m_exec_remote m_marshal m_unmarshal m_view m_wf m_equiv);
    auto using m_init_wf, m_exec_remote_wf, unmarshal_wf, m_equiv_refl, map_equiv_remote, map_roundtrip, map_equiv_view.
  apply m_equiv_trans.
Qed.
Theorem map_version steps later col key v1 :
  real_ver (snd (map_srun steps)) col key = Some v1 ->
  exists v2, real_ver (snd (map_srun (steps ++ later))) col key = Some v2 /\ v1 <= v2.
Proof.
  apply (version_never_decreases mstate m_init m_exec_remote m_marshal m_unmarshal m_view m_wf m_equiv);
    auto using m_init_wf, m_exec_remote_wf, unmarshal_wf, m_equiv_refl, map_equiv_remote, map_roundtrip.
  apply m_equiv_trans.
Qed.
Theorem map_rebuild steps D d :
  find_dt (fst (map_srun steps)) D = Some d ->
  let '(st, v) := latest_datatype mstate m_init m_exec_remote m_unmarshal (fst (map_srun steps)) (snd (map_srun steps)) d in
  v = dd_end d /\ m_equiv st (replay mstate m_init m_exec_remote (fst (map_srun steps)) D (dd_end d)).
Proof.
  apply (rebuild_equals_replay mstate m_init m_exec_remote m_marshal m_unmarshal m_view m_wf m_equiv);
    auto using m_init_wf, m_exec_remote_wf, unmarshal_wf, m_equiv_refl, map_equiv_remote, map_roundtrip.
  apply m_equiv_trans.
Qed.
