(* C05 / C07 at system level, for the steady state of one datatype: any number of subscribed clients issue operations
   and exchange with the server in any order; answers may be lost and requests repeated.  The server is the modelled
   handler (Model/Server.v); a client is its checkpoint, its pending operations and the list of operations it has
   executed, and reacts to an answer as ApplyPushPullPack does (Model/Wire.v: count-based choice of the new foreign
   operations, monotone checkpoint) — [normal_exchange_delivers] and [normal_exchange_client] are the bridge.
   Theorem: in every reachable state every client has executed exactly the other clients' operations of the log prefix
   it has seen, in log order, each once; its checkpoint never moves back; the log holds every client's operations
   exactly once in issue order (C06). *)
From Coq Require Import List NArith ZArith Bool Lia.
From Orda.Model Require Import Base Time Ops Server Wire.
From Orda.Proofs Require Import TimeFacts MapFacts ServerFacts ClientOrder WireFacts ExchangeFacts.
Import ListNotations.
Open Scope N_scope.

(* ---------- the stored log of a datatype as a list ---------- *)
Definition logdocs (db : sdb) (D : str) : list odoc := ops_of (s_ops db) D.

Lemma get_ops_is_filter db D e from :
  map od_sseq (logdocs db D) = nseq 1 (N.to_nat e) ->
  get_ops db D from = filter (fun o => from <=? od_sseq o) (logdocs db D).
Proof.
  intros H. unfold get_ops, logdocs in *.
  assert (E : filter (fun o => str_eqb (od_duid o) D && (from <=? od_sseq o)) (s_ops db) =
              filter (fun o => from <=? od_sseq o) (ops_of (s_ops db) D)).
  { unfold ops_of. rewrite filter_filter. reflexivity. }
  rewrite E. rewrite sort_sorted; [reflexivity|]. cbn [app].
  rewrite (map_filter_comm od_sseq (fun s => from <=? s)), H. apply filter_inc, nseq_inc.
Qed.

Lemma filter_from_is_skipn (l : list odoc) : forall st n k,
  map od_sseq l = nseq st n ->
  filter (fun o => k <=? od_sseq o) l = skipn (N.to_nat (k - st)) l.
Proof.
  induction l as [|o l IH]; intros st n k H; [destruct (N.to_nat (k - st)); reflexivity|].
  destruct n as [|n]; [discriminate|]. cbn [map nseq] in H. injection H as Ho Hl. cbn [filter].
  destruct (N.leb_spec k (od_sseq o)).
  - replace (N.to_nat (k - st)) with 0%nat by lia. cbn [skipn]. f_equal.
    rewrite (IH (st + 1) n k Hl). replace (N.to_nat (k - (st + 1))) with 0%nat by lia. reflexivity.
  - replace (N.to_nat (k - st)) with (S (N.to_nat (k - (st + 1)))) by lia. cbn [skipn]. apply (IH (st + 1) n k Hl).
Qed.

Lemma log_beyond db D e s :
  map od_sseq (logdocs db D) = nseq 1 (N.to_nat e) ->
  get_ops db D (s + 1) = skipn (N.to_nat s) (logdocs db D).
Proof.
  intros H. rewrite (get_ops_is_filter db D e (s + 1) H), (filter_from_is_skipn _ 1 (N.to_nat e) (s + 1) H).
  f_equal. lia.
Qed.

(* ---------- pushOperations on a client's pending operations: consecutive sequence numbers, some already stored ---------- *)
Definition oseq' (o : op) : N := o_seq (op_id o).

Lemma push_consecutive D col : forall buf first k0 e acc,
  map oseq' buf = nseq first (length buf) -> first <= k0 + 1 -> k0 + 1 <= first + N.of_nat (length buf) ->
  exists newdocs,
    push_ops D col (mkCp e k0) buf acc = Some (mkCp (e + N.of_nat (length newdocs)) (k0 + N.of_nat (length newdocs)), acc ++ newdocs) /\
    map od_op newdocs = skipn (N.to_nat (k0 + 1 - first)) buf /\
    length newdocs = (length buf - N.to_nat (k0 + 1 - first))%nat.
Proof.
  induction buf as [|o buf IH]; intros first k0 e acc Hs H1 H2; cbn [push_ops length] in *.
  - exists []. rewrite app_nil_r, !N.add_0_r. split; [reflexivity|]. split; [destruct (N.to_nat _); reflexivity|reflexivity].
  - cbn [map nseq] in Hs. injection Hs as Ho Hb. unfold oseq' in Ho. cbn [sseq cseq]. rewrite Ho.
    destruct (N.eqb_spec (k0 + 1) first) as [E|E].
    + (* accepted *)
      assert (Em : N.max k0 first = k0 + 1) by lia. rewrite Em.
      destruct (IH (first + 1) (k0 + 1) (e + 1) (acc ++ [mkOdoc D col (e + 1) o]) Hb ltac:(lia) ltac:(lia)) as [nd [P1 [P2 P3]]].
      exists (mkOdoc D col (e + 1) o :: nd). rewrite P1. split; [|split].
      * cbn [length]. rewrite <- app_assoc. cbn [app]. do 3 f_equal; lia.
      * replace (N.to_nat (k0 + 1 - first)) with 0%nat by lia. cbn [skipn map od_op]. f_equal.
        rewrite P2. replace (N.to_nat (k0 + 1 + 1 - (first + 1))) with 0%nat by lia. reflexivity.
      * cbn [length]. rewrite P3. lia.
    + (* already stored: rejected silently *)
      destruct (N.leb_spec first k0); [|lia].
      destruct (IH (first + 1) k0 e acc Hb ltac:(lia) ltac:(lia)) as [nd [P1 [P2 P3]]].
      exists nd. split; [exact P1|]. split.
      * replace (N.to_nat (k0 + 1 - first)) with (S (N.to_nat (k0 + 1 - (first + 1)))) by lia. cbn [skipn]. exact P2.
      * rewrite P3. lia.
Qed.

(* ---------- the system: one datatype, its subscribed clients ---------- *)
Section Proto.
  Variables (colname : str) (col : N) (D key : str) (ty : N).

  Record pclient := mkPc { pc_cuid : str; pc_s : N; pc_cc : N; pc_buf : list op; pc_exec : list op }.
  Record psys := mkPs { ps_db : sdb; ps_cl : list pclient }.

  (* CreatePushPullPack of a subscribed datatype: own checkpoint, pending operations *)
  Definition preq (c : pclient) : ppp :=
    mkPpp key D 0 (mkCp (pc_s c) (pc_cc c + N.of_nat (length (pc_buf c)))) ty (pc_buf c) None.

  Inductive pev := PLocal (i : nat) (o : op) | PSync (i : nat) (lost : bool).

  Fixpoint upd_nth {A} (l : list A) (i : nat) (x : A) : list A :=
    match l, i with
    | [], _ => []
    | _ :: r, O => x :: r
    | y :: r, S i' => y :: upd_nth r i' x
    end.

  Definition rec_of (d0 : ddoc) (u : str) : cp :=
    match alookup str_eqb u (dd_rw d0) with Some c => c | None => mkCp 0 0 end.
  Definition big : N := 4611686018427387904.

  Definition pstep (st : psys) (ev : pev) : psys :=
    match ev with
    | PLocal i o =>
        match nth_error (ps_cl st) i with
        | Some c =>
            (* the next local operation: own identifier, next sequence number *)
            if str_eqb (o_cuid (op_id o)) (pc_cuid c) && N.eqb (oseq' o) (pc_cc c + N.of_nat (length (pc_buf c)) + 1)
            then mkPs (ps_db st) (upd_nth (ps_cl st) i (mkPc (pc_cuid c) (pc_s c) (pc_cc c) (pc_buf c ++ [o]) (pc_exec c)))
            else st
        | None => st
        end
    | PSync i lost =>
        match nth_error (ps_cl st) i, find_dt (ps_db st) D with
        | Some c, Some d0 =>
            let n := N.of_nat (length (pc_buf c)) in
            if (dd_end d0 + n <? big) && (cseq (rec_of d0 (pc_cuid c)) + n <? big) then   (* counters far from wrapping *)
              let '(db', resp, _) := handle_pack (ps_db st) colname col (pc_cuid c) (preq c) in
              match p_err resp, lost with
              | None, false =>
                  match incoming (pc_cuid c) false (mkCp (pc_s c) (pc_cc c)) resp with
                  | Some ops =>
                      let s' := N.max (pc_s c) (sseq (p_cp resp)) in
                      let cc' := N.max (pc_cc c) (cseq (p_cp resp)) in
                      mkPs db' (upd_nth (ps_cl st) i
                                  (mkPc (pc_cuid c) s' cc' (skipn (N.to_nat (cc' - pc_cc c)) (pc_buf c)) (pc_exec c ++ ops)))
                  | None => mkPs db' (ps_cl st)
                  end
              | _, _ => mkPs db' (ps_cl st)       (* refused, or the answer was lost: the client keeps what it has *)
              end
            else st
        | _, _ => st
        end
    end.

  (* ---------- the invariant ---------- *)
  Definition own_of (u : str) (o : op) : bool := str_eqb (o_cuid (op_id o)) u.
  Definition logops (db : sdb) : list op := map od_op (logdocs db D).

  Definition cinv (db : sdb) (d0 : ddoc) (c : pclient) : Prop :=
    let e := dd_end d0 in let k0 := cseq (rec_of d0 (pc_cuid c)) in let L := logops db in
    pc_s c <= e /\ pc_cc c <= k0 /\ k0 <= pc_cc c + N.of_nat (length (pc_buf c)) /\
    N.of_nat (length (filter (own_of (pc_cuid c)) (skipn (N.to_nat (pc_s c)) L))) = k0 - pc_cc c /\
    Forall (fun o => o_cuid (op_id o) = pc_cuid c) (pc_buf c) /\
    map oseq' (pc_buf c) = nseq (pc_cc c + 1) (length (pc_buf c)) /\
    (* exactly once, in log order: what the client has executed is the log prefix it has seen minus its own operations *)
    pc_exec c = filter (fun o => negb (own_of (pc_cuid c) o)) (firstn (N.to_nat (pc_s c)) L).

  Definition PInv (st : psys) : Prop :=
    LogInv (ps_db st) /\ ClientInv (ps_db st) /\ NoDup (map pc_cuid (ps_cl st)) /\
    exists d0, In d0 (s_dts (ps_db st)) /\ dd_duid d0 = D /\ dd_col d0 = col /\ Forall (cinv (ps_db st) d0) (ps_cl st).

  (* ---------- one exchange, from the invariant ---------- *)
  Lemma logops_len db d0 : LogInv db -> In d0 (s_dts db) -> dd_duid d0 = D ->
    map od_sseq (logdocs db D) = nseq 1 (N.to_nat (dd_end d0)) /\ length (logops db) = N.to_nat (dd_end d0).
  Proof.
    intros [_ Hdt _ _] Hin Hd. pose proof (di_sseq _ _ (Hdt d0 Hin)) as Hq. rewrite Hd in Hq. split; [exact Hq|].
    unfold logops. rewrite map_length, <- (map_length od_sseq). unfold logdocs. rewrite Hq. clear. generalize 1.
    induction (N.to_nat (dd_end d0)) as [|n IH]; intros st; cbn; [reflexivity|rewrite IH; reflexivity].
  Qed.

  Lemma sync_effect db d0 c :
    LogInv db -> In d0 (s_dts db) -> dd_duid d0 = D -> dd_col d0 = col -> cinv db d0 c ->
    dd_end d0 + N.of_nat (length (pc_buf c)) < big -> cseq (rec_of d0 (pc_cuid c)) + N.of_nat (length (pc_buf c)) < big ->
    let e := dd_end d0 in let k0 := cseq (rec_of d0 (pc_cuid c)) in
    exists newdocs,
      let a := N.of_nat (length newdocs) in
      handle_pack db colname col (pc_cuid c) (preq c) =
        (mkSdb (s_cols db) (s_colctr db) (s_clients db)
               (upsert_dt (s_dts db) (set_end (set_client d0 false (pc_cuid c) (mkCp (e + a) (k0 + a))) (e + a)))
               (s_ops db ++ newdocs),
         mkPpp key D 0 (mkCp (e + a) (k0 + a)) ty (map od_op (get_ops db D (pc_s c + 1))) None,
         match newdocs with [] => [] | _ => [mkPub colname (dd_key d0) (pc_cuid c) D (e + a)] end) /\
      map od_op newdocs = skipn (N.to_nat (k0 - pc_cc c)) (pc_buf c) /\
      length newdocs = (length (pc_buf c) - N.to_nat (k0 - pc_cc c))%nat /\
      Forall (fun o => od_duid o = D /\ od_col o = col) newdocs /\
      incoming (pc_cuid c) false (mkCp (pc_s c) (pc_cc c))
               (mkPpp key D 0 (mkCp (e + a) (k0 + a)) ty (map od_op (get_ops db D (pc_s c + 1))) None)
        = Some (filter (fun o => negb (own_of (pc_cuid c) o)) (skipn (N.to_nat (pc_s c)) (logops db))).
  Proof.
    intros Hinv Hin Hd Hcol [C1 [C2 [C3 [C4 [C5 [C6 C7]]]]]] B1 B2 e k0.
    destruct (push_consecutive D col (pc_buf c) (pc_cc c + 1) k0 e [] C6 ltac:(lia) ltac:(lia)) as [newdocs [P1 [P2 P3]]].
    cbn [app] in P1. exists newdocs. cbv zeta.
    assert (Hduid : p_duid (preq c) = dd_duid d0) by (rewrite Hd; reflexivity).
    pose proof (normal_pack db colname col (pc_cuid c) (preq c) d0 Hinv Hin Hcol Hduid eq_refl) as NP. cbv zeta in NP.
    rewrite Hd in NP. change (match alookup str_eqb (pc_cuid c) (dd_rw d0) with Some c0 => c0 | None => mkCp 0 0 end) with (rec_of d0 (pc_cuid c)) in NP.
    cbn [preq p_ops p_cp p_key p_type sseq] in NP. fold e k0 in NP. rewrite P1 in NP. cbn [cseq] in NP.
    split; [exact NP|]. split; [rewrite P2; f_equal; lia|]. split; [rewrite P3; f_equal; lia|].
    pose proof (push_ops_spec _ _ _ _ _ _ _ P1) as [new0 [J1 [_ [_ [_ [J5 _]]]]]]. cbn [app] in J1. subst new0. split; [exact J5|].
    (* the client's choice of operations *)
    destruct (logops_len db d0 Hinv Hin Hd) as [Hseq Hlen].
    assert (Hh : honest_pack (pc_cuid c) (preq c)) by exact C5.
    pose proof (normal_exchange_delivers db colname col (pc_cuid c) (preq c) d0 (pc_s c) (pc_cc c)
                  (mkCp (e + N.of_nat (length newdocs)) (k0 + N.of_nat (length newdocs))) newdocs
                  Hinv Hin Hcol Hduid eq_refl eq_refl Hh) as NE. cbv zeta in NE. rewrite Hd in NE.
    change (match alookup str_eqb (pc_cuid c) (dd_rw d0) with Some c0 => c0 | None => mkCp 0 0 end) with (rec_of d0 (pc_cuid c)) in NE.
    fold e k0 in NE. cbn [preq p_ops] in NE.
    rewrite (log_beyond db D e (pc_s c) Hseq) in NE.
    specialize (NE C1 C2). rewrite NP in NE. cbn [fst snd] in NE.
    assert (Hown : N.of_nat (length (filter (fun o => str_eqb (o_cuid (op_id o)) (pc_cuid c)) (map od_op (skipn (N.to_nat (pc_s c)) (logdocs db D))))) = k0 - pc_cc c).
    { unfold k0. rewrite <- C4. unfold logops, own_of. rewrite skipn_map. reflexivity. }
    destruct (NE Hown B1 B2 P1) as [_ [_ [_ NI]]].
    rewrite (log_beyond db D e (pc_s c) Hseq) in NI |- *. unfold logops. rewrite skipn_map. exact NI.
  Qed.

  (* ---------- what an exchange of client u does to the invariant of every client ---------- *)
  Lemma logops_app db new : Forall (fun o => od_duid o = D) new ->
    logops (mkSdb (s_cols db) (s_colctr db) (s_clients db) (s_dts db) (s_ops db ++ new)) = logops db ++ map od_op new.
  Proof.
    intros H. unfold logops, logdocs. cbn [s_ops]. rewrite ops_of_app, (ops_of_all new D H), map_app. reflexivity.
  Qed.
  Lemma logops_dts db dts : logops (mkSdb (s_cols db) (s_colctr db) (s_clients db) dts (s_ops db)) = logops db.
  Proof. reflexivity. Qed.

  Lemma rec_of_set d0 u x e' v :
    rec_of (set_end (set_client d0 false u x) e') v = if str_eqb v u then x else rec_of d0 v.
  Proof.
    unfold rec_of. change (dd_rw (set_end (set_client d0 false u x) e')) with (clients_of (set_client d0 false u x) false).
    rewrite set_client_lookup. cbn [Bool.eqb andb]. destruct (str_eqb v u); reflexivity.
  Qed.

  Lemma filter_all_true {A} (f : A -> bool) l : Forall (fun x => f x = true) l -> filter f l = l.
  Proof. induction 1 as [|x l Hx _ IH]; cbn; [reflexivity|rewrite Hx, IH; reflexivity]. Qed.
  Lemma filter_all_false {A} (f : A -> bool) l : Forall (fun x => f x = false) l -> filter f l = [].
  Proof. induction 1 as [|x l Hx _ IH]; cbn; [reflexivity|rewrite Hx, IH; reflexivity]. Qed.

  (* another client: its record is untouched, the new log entries are not its own and lie beyond what it has seen *)
  Lemma cinv_other db d0 v u x a newops :
    pc_cuid v <> u -> length (logops db) = N.to_nat (dd_end d0) ->
    Forall (fun o => own_of (pc_cuid v) o = false) newops ->
    cinv db d0 v ->
    forall db', logops db' = logops db ++ newops ->
    cinv db' (set_end (set_client d0 false u x) (dd_end d0 + a)) v.
  Proof.
    intros Hne Hlen Hnew [C1 [C2 [C3 [C4 [C5 [C6 C7]]]]]] db' HL. unfold cinv. cbn [dd_end set_end].
    rewrite rec_of_set. destruct (str_eqb (pc_cuid v) u) eqn:E; [apply str_eqb_eq in E; contradiction|].
    rewrite HL. split; [lia|]. split; [exact C2|]. split; [exact C3|]. split; [|split; [exact C5|split; [exact C6|]]].
    - rewrite skipn_app. replace (N.to_nat (pc_s v) - length (logops db))%nat with 0%nat by lia. cbn [skipn].
      rewrite filter_app, (filter_all_false _ newops Hnew), app_nil_r. exact C4.
    - rewrite firstn_app. replace (N.to_nat (pc_s v) - length (logops db))%nat with 0%nat by lia. cbn [firstn]. rewrite app_nil_r. exact C7.
  Qed.

  Lemma skipn_nseq k : forall st n, skipn k (nseq st n) = nseq (st + N.of_nat k) (n - k).
  Proof.
    induction k as [|k IH]; intros st n; cbn [skipn]; [rewrite N.add_0_r, Nat.sub_0_r; reflexivity|].
    destruct n as [|n]; [reflexivity|]. cbn [nseq]. rewrite IH. cbn [Nat.sub]. f_equal. lia.
  Qed.

  Lemma cinv_self_received db d0 c newdocs db' :
    cinv db d0 c -> length (logops db) = N.to_nat (dd_end d0) ->
    let e := dd_end d0 in let k0 := cseq (rec_of d0 (pc_cuid c)) in let a := N.of_nat (length newdocs) in
    map od_op newdocs = skipn (N.to_nat (k0 - pc_cc c)) (pc_buf c) ->
    length newdocs = (length (pc_buf c) - N.to_nat (k0 - pc_cc c))%nat ->
    logops db' = logops db ++ map od_op newdocs ->
    cinv db' (set_end (set_client d0 false (pc_cuid c) (mkCp (e + a) (k0 + a))) (e + a))
         (mkPc (pc_cuid c) (N.max (pc_s c) (e + a)) (N.max (pc_cc c) (k0 + a))
               (skipn (N.to_nat (N.max (pc_cc c) (k0 + a) - pc_cc c)) (pc_buf c))
               (pc_exec c ++ filter (fun o => negb (own_of (pc_cuid c) o)) (skipn (N.to_nat (pc_s c)) (logops db)))).
  Proof.
    intros [C1 [C2 [C3 [C4 [C5 [C6 C7]]]]]] Hlen e k0 a Hops Hn HL. unfold cinv.
    cbn [pc_cuid pc_s pc_cc pc_buf pc_exec dd_end set_end]. rewrite rec_of_set, str_eqb_refl. cbn [cseq].
    fold e k0 in C1, C2, C3, C4.
    assert (Ea : a = N.of_nat (length (pc_buf c)) - (k0 - pc_cc c)) by (unfold a; lia).
    rewrite (N.max_r (pc_s c) (e + a)) by lia. rewrite (N.max_r (pc_cc c) (k0 + a)) by lia.
    assert (Eb : skipn (N.to_nat (k0 + a - pc_cc c)) (pc_buf c) = []).
    { apply skipn_all2. lia. }
    rewrite Eb. cbn [length].
    assert (Hown : Forall (fun o => own_of (pc_cuid c) o = true) (map od_op newdocs)).
    { rewrite Hops. apply Forall_forall. intros o Ho. apply in_skipn' in Ho. rewrite Forall_forall in C5. unfold own_of.
      rewrite (C5 o Ho). apply str_eqb_refl. }
    assert (Hall : N.to_nat (e + a) = length (logops db ++ map od_op newdocs)).
    { rewrite app_length, map_length, Hlen. unfold a, e. lia. }
    split; [lia|]. split; [lia|]. split; [lia|]. rewrite HL. split; [|split; [constructor|split; [reflexivity|]]].
    - rewrite Hall, skipn_all. cbn. lia.
    - rewrite Hall, firstn_all, filter_app. rewrite C7.
      rewrite <- (firstn_skipn (N.to_nat (pc_s c)) (logops db)) at 3. rewrite filter_app, <- app_assoc. f_equal.
      rewrite (filter_all_false _ (map od_op newdocs)); [rewrite app_nil_r; reflexivity|].
      eapply Forall_impl; [|exact Hown]. intros o Ho. cbv beta in Ho. rewrite Ho. reflexivity.
  Qed.

  Lemma cinv_self_lost db d0 c newdocs db' :
    cinv db d0 c -> length (logops db) = N.to_nat (dd_end d0) ->
    let e := dd_end d0 in let k0 := cseq (rec_of d0 (pc_cuid c)) in let a := N.of_nat (length newdocs) in
    map od_op newdocs = skipn (N.to_nat (k0 - pc_cc c)) (pc_buf c) ->
    length newdocs = (length (pc_buf c) - N.to_nat (k0 - pc_cc c))%nat ->
    logops db' = logops db ++ map od_op newdocs ->
    cinv db' (set_end (set_client d0 false (pc_cuid c) (mkCp (e + a) (k0 + a))) (e + a)) c.
  Proof.
    intros [C1 [C2 [C3 [C4 [C5 [C6 C7]]]]]] Hlen e k0 a Hops Hn HL. unfold cinv.
    cbn [dd_end set_end]. rewrite rec_of_set, str_eqb_refl. cbn [cseq]. fold e k0 in C1, C2, C3, C4.
    assert (Hown : Forall (fun o => own_of (pc_cuid c) o = true) (map od_op newdocs)).
    { rewrite Hops. apply Forall_forall. intros o Ho. apply in_skipn' in Ho. rewrite Forall_forall in C5. unfold own_of.
      rewrite (C5 o Ho). apply str_eqb_refl. }
    rewrite HL. split; [lia|]. split; [lia|]. split; [unfold a; lia|]. split; [|split; [exact C5|split; [exact C6|]]].
    - rewrite skipn_app. replace (N.to_nat (pc_s c) - length (logops db))%nat with 0%nat by lia. cbn [skipn].
      rewrite filter_app, app_length, (filter_all_true _ _ Hown), map_length. unfold a. lia.
    - rewrite firstn_app. replace (N.to_nat (pc_s c) - length (logops db))%nat with 0%nat by lia. cbn [firstn]. rewrite app_nil_r. exact C7.
  Qed.

  Lemma Forall_upd_nth {A B} (f : A -> B) (P Q : A -> Prop) (l : list A) : forall i c c',
    NoDup (map f l) -> nth_error l i = Some c ->
    (forall v, In v l -> f v <> f c -> P v -> Q v) -> Q c' -> Forall P l -> Forall Q (upd_nth l i c').
  Proof.
    induction l as [|x l IH]; intros i c c' Hnd Hn Hother Hc' HP; [destruct i; discriminate|].
    inversion Hnd as [|? ? Hx Hnd']; subst. inversion HP as [|? ? Px Pl]; subst. destruct i as [|i]; cbn [nth_error upd_nth] in *.
    - injection Hn as ->. constructor; [exact Hc'|]. apply Forall_forall. intros v Hv. rewrite Forall_forall in Pl.
      apply Hother; [right; exact Hv| |apply Pl, Hv]. intros E. apply Hx. rewrite <- E. apply in_map. exact Hv.
    - constructor.
      + apply Hother; [left; reflexivity| |exact Px]. intros E. apply Hx. rewrite E. apply in_map. eapply nth_error_In; eauto.
      + apply (IH i c c' Hnd' Hn); [|exact Hc'|exact Pl]. intros v Hv. apply Hother. right. exact Hv.
  Qed.
  Lemma map_upd_nth {A B} (f : A -> B) (l : list A) : forall i c c', nth_error l i = Some c -> f c' = f c -> map f (upd_nth l i c') = map f l.
  Proof.
    induction l as [|x l IH]; intros i c c' Hn E; [reflexivity|]. destruct i as [|i]; cbn [nth_error upd_nth map] in *.
    - injection Hn as ->. rewrite E. reflexivity.
    - f_equal. eapply IH; eauto.
  Qed.

  (* ---------- the invariant holds in every reachable state ---------- *)
  Theorem pstep_inv st ev : PInv st -> PInv (pstep st ev).
  Proof.
    intros Same. pose proof Same as [Hinv [Hci [Hnd [d0 [Hin [Hd [Hcol Hcl]]]]]]]. destruct ev as [i o|i lost]; cbn [pstep].
    - (* a local operation *)
      destruct (nth_error (ps_cl st) i) as [c|] eqn:En; [|exact Same].
      destruct (str_eqb (o_cuid (op_id o)) (pc_cuid c) && N.eqb (oseq' o) (pc_cc c + N.of_nat (length (pc_buf c)) + 1)) eqn:Eg;
        [|exact Same]. apply andb_true_iff in Eg. destruct Eg as [E1 E2]. apply str_eqb_eq in E1. apply N.eqb_eq in E2.
      split; [exact Hinv|]. split; [exact Hci|]. cbn [ps_db ps_cl]. split; [rewrite (map_upd_nth pc_cuid _ i c); auto|].
      exists d0. split; [exact Hin|]. split; [exact Hd|]. split; [exact Hcol|].
      apply (Forall_upd_nth pc_cuid (cinv (ps_db st) d0) (cinv (ps_db st) d0) _ i c); auto.
      rewrite Forall_forall in Hcl. destruct (Hcl c (nth_error_In _ _ En)) as [C1 [C2 [C3 [C4 [C5 [C6 C7]]]]]].
      unfold cinv. cbn [pc_cuid pc_s pc_cc pc_buf pc_exec]. rewrite app_length. cbn [length].
      split; [exact C1|]. split; [exact C2|]. split; [lia|]. split; [exact C4|]. split; [|split; [|exact C7]].
      + apply Forall_app. split; [exact C5|constructor; [exact E1|constructor]].
      + rewrite map_app, C6. cbn [map]. rewrite E2, (nseq_app (pc_cc c + 1) (length (pc_buf c)) 1). cbn [nseq]. do 2 f_equal. lia.
    - (* an exchange *)
      destruct (nth_error (ps_cl st) i) as [c|] eqn:En; [|exact Same].
      pose proof Hinv as [Hndd _ _ _].
      assert (Ef : find_dt (ps_db st) D = Some d0) by (rewrite <- Hd; apply find_dt_of_in; assumption). rewrite Ef.
      destruct ((dd_end d0 + N.of_nat (length (pc_buf c)) <? big) && (cseq (rec_of d0 (pc_cuid c)) + N.of_nat (length (pc_buf c)) <? big)) eqn:Eg;
        [|exact Same]. apply andb_true_iff in Eg. destruct Eg as [B1 B2]. apply N.ltb_lt in B1, B2.
      pose proof Hcl as Hcl'. rewrite Forall_forall in Hcl'. pose proof (Hcl' c (nth_error_In _ _ En)) as Hc.
      destruct (sync_effect (ps_db st) d0 c Hinv Hin Hd Hcol Hc B1 B2) as [newdocs [Hhp [Hops [Hlen [Hnew Hinc]]]]].
      cbv zeta in Hhp, Hinc. rewrite Hhp. cbn [p_err p_cp sseq cseq].
      set (e := dd_end d0) in *. set (k0 := cseq (rec_of d0 (pc_cuid c))) in *. set (a := N.of_nat (length newdocs)) in *.
      set (d1 := set_end (set_client d0 false (pc_cuid c) (mkCp (e + a) (k0 + a))) (e + a)) in *.
      set (db' := mkSdb (s_cols (ps_db st)) (s_colctr (ps_db st)) (s_clients (ps_db st)) (upsert_dt (s_dts (ps_db st)) d1) (s_ops (ps_db st) ++ newdocs)) in *.
      (* the store *)
      pose proof (handle_pack_spec (ps_db st) colname col (pc_cuid c) (preq c) Hinv) as HS. rewrite Hhp in HS. destruct HS as [Hinv' _].
      assert (Hhon : honest_pack (pc_cuid c) (preq c)) by (destruct Hc as [_ [_ [_ [_ [C5 _]]]]]; exact C5).
      pose proof (handle_pack_client (ps_db st) colname col (pc_cuid c) (preq c) Hinv Hci Hhon) as HC. rewrite Hhp in HC. cbn [fst] in HC.
      assert (Hdup : Forall (fun o => od_duid o = D) newdocs) by (eapply Forall_impl; [|exact Hnew]; intros o0 [H _]; exact H).
      assert (HL : logops db' = logops (ps_db st) ++ map od_op newdocs).
      { unfold db'. unfold logops, logdocs. cbn [s_ops]. rewrite ops_of_app, (ops_of_all newdocs D Hdup), map_app. reflexivity. }
      destruct (logops_len (ps_db st) d0 Hinv Hin Hd) as [_ Hlenlog].
      assert (Hin1 : In d1 (s_dts db')) by (unfold db'; cbn [s_dts]; apply (upsert_in _ _ _ Hndd); left; reflexivity).
      assert (Hd1 : dd_duid d1 = D) by (unfold d1, set_end, set_client; cbn; exact Hd).
      assert (Hc1 : dd_col d1 = col).
      { unfold d1, set_end, set_client. cbn. exact Hcol. }
      (* the other clients *)
      assert (Hothers : forall v, In v (ps_cl st) -> pc_cuid v <> pc_cuid c -> cinv (ps_db st) d0 v -> cinv db' d1 v).
      { intros v Hv Hne Hcv. unfold d1. apply (cinv_other (ps_db st) d0 v (pc_cuid c) _ a (map od_op newdocs) Hne Hlenlog); [|exact Hcv|exact HL].
        rewrite Hops. apply Forall_forall. intros o0 Ho. apply in_skipn' in Ho. destruct Hc as [_ [_ [_ [_ [C5 _]]]]].
        rewrite Forall_forall in C5. unfold own_of. rewrite (C5 o0 Ho). destruct (str_eqb (pc_cuid c) (pc_cuid v)) eqn:E; [|reflexivity].
        apply str_eqb_eq in E. exfalso. apply Hne. symmetry. exact E. }
      destruct lost.
      + (* the answer is lost *)
        split; [exact Hinv'|]. split; [exact HC|]. split; [exact Hnd|]. exists d1. split; [exact Hin1|]. split; [exact Hd1|]. split; [exact Hc1|].
        cbn [ps_cl ps_db]. apply Forall_forall. intros v Hv. destruct (str_eqb (pc_cuid v) (pc_cuid c)) eqn:E.
        * apply str_eqb_eq in E. assert (v = c).
          { eapply (nodup_map_in_inj pc_cuid); eauto. eapply nth_error_In; eauto. }
          subst v. exact (cinv_self_lost (ps_db st) d0 c newdocs db' Hc Hlenlog Hops Hlen HL).
        * apply Hothers; [exact Hv| |apply Hcl', Hv]. intros E'. rewrite E', str_eqb_refl in E. discriminate.
      + (* the answer arrives *)
        rewrite Hinc.
        split; [exact Hinv'|]. split; [exact HC|]. cbn [ps_cl ps_db]. split; [rewrite (map_upd_nth pc_cuid _ i c); auto|].
        exists d1. split; [exact Hin1|]. split; [exact Hd1|]. split; [exact Hc1|].
        apply (Forall_upd_nth pc_cuid (cinv (ps_db st) d0) (cinv db' d1) _ i c); auto.
        exact (cinv_self_received (ps_db st) d0 c newdocs db' Hc Hlenlog Hops Hlen HL).
  Qed.

  Definition prun (st : psys) (evs : list pev) : psys := fold_left pstep evs st.

  Theorem prun_inv evs : forall st, PInv st -> PInv (prun st evs).
  Proof. induction evs as [|ev evs IH]; intros st H; cbn; [exact H|]. apply IH, pstep_inv, H. Qed.

  (* C05 / C07, system level.  In every state reachable by local operations and exchanges in any order, with answers
     lost and requests repeated at will: every client has executed exactly the other clients' operations among the first
     s entries of the log, in log order, each once (s = the log position it has seen); and the log holds each client's
     operations exactly once, in issue order, exactly up to what the server has acknowledged to it. *)
  Theorem protocol_exactly_once st0 evs :
    PInv st0 ->
    let st := prun st0 evs in
    LogInv (ps_db st) /\
    (forall c, In c (ps_cl st) ->
       pc_exec c = filter (fun o => negb (own_of (pc_cuid c) o)) (firstn (N.to_nat (pc_s c)) (logops (ps_db st)))) /\
    (forall d u, In d (s_dts (ps_db st)) -> seqs_of (s_ops (ps_db st)) (dd_duid d) u = nseq 1 (N.to_nat (ack d u))).
  Proof.
    intros H st. destruct (prun_inv evs st0 H) as [Hinv [Hci [_ [d0 [_ [_ [_ Hcl]]]]]]]. fold st in Hinv, Hci, Hcl.
    split; [exact Hinv|]. split; [|intros d u Hd; exact (Hci d Hd u)].
    intros c Hc. rewrite Forall_forall in Hcl. destruct (Hcl c Hc) as [_ [_ [_ [_ [_ [_ C7]]]]]]. exact C7.
  Qed.

  (* at quiescence — every client has seen the whole log and has nothing pending — every client has executed every
     operation of the log that is not its own, in log order: the clients have executed the same operations *)
  Theorem protocol_quiescent st0 evs :
    PInv st0 ->
    let st := prun st0 evs in
    forall d0, In d0 (s_dts (ps_db st)) -> dd_duid d0 = D ->
    forall c, In c (ps_cl st) -> pc_s c = dd_end d0 ->
      pc_exec c = filter (fun o => negb (own_of (pc_cuid c) o)) (logops (ps_db st)).
  Proof.
    intros H st d0 Hin Hd c Hc Hs. destruct (protocol_exactly_once st0 evs H) as [Hinv [Hex _]]. fold st in Hinv, Hex.
    rewrite (Hex c Hc), Hs. destruct (logops_len (ps_db st) d0 Hinv Hin Hd) as [_ Hlen]. rewrite <- Hlen, firstn_all. reflexivity.
  Qed.

  (* a client's checkpoint never moves back *)
  Theorem checkpoint_monotone st ev i c c' :
    nth_error (ps_cl st) i = Some c -> nth_error (ps_cl (pstep st ev)) i = Some c' ->
    pc_s c <= pc_s c' /\ pc_cc c <= pc_cc c'.
  Proof.
    assert (G0 : forall (l : list pclient) i0 j x y c0, nth_error l i0 = Some c0 -> nth_error (upd_nth l j x) i0 = Some y -> (j = i0 /\ y = x) \/ y = c0).
    { induction l as [|z l IH]; intros i0 j x y c0 H1 H2; [destruct i0; discriminate|].
      destruct i0 as [|i'], j as [|j']; cbn [nth_error upd_nth] in *.
      - injection H2 as <-. left. auto.
      - right. congruence.
      - right. congruence.
      - destruct (IH i' j' x y c0 H1 H2) as [[E1 E2]|E3]; [left; subst; auto|right; exact E3]. }
    intros H1 H2. pose proof (fun l j x y => G0 l i j x y c) as G. destruct ev as [j o|j lost]; cbn [pstep] in H2.
    - destruct (nth_error (ps_cl st) j) as [cj|] eqn:Ej; [|rewrite H1 in H2; injection H2 as <-; lia].
      destruct (_ && _); [|rewrite H1 in H2; injection H2 as <-; lia]. cbn [ps_cl] in H2.
      destruct (G _ _ _ _ H1 H2) as [[E1 E2]|E3]; [|subst c'; lia]. subst j c'. rewrite H1 in Ej. injection Ej as <-. cbn. lia.
    - destruct (nth_error (ps_cl st) j) as [cj|] eqn:Ej; [|rewrite H1 in H2; injection H2 as <-; lia].
      destruct (find_dt (ps_db st) D) as [d0|]; [|rewrite H1 in H2; injection H2 as <-; lia].
      destruct (_ && _); [|rewrite H1 in H2; injection H2 as <-; lia].
      destruct (handle_pack (ps_db st) colname col (pc_cuid cj) (preq cj)) as [[db' resp] pubs].
      destruct (p_err resp); [cbn [ps_cl] in H2; rewrite H1 in H2; injection H2 as <-; lia|].
      destruct lost; [cbn [ps_cl] in H2; rewrite H1 in H2; injection H2 as <-; lia|].
      destruct (incoming (pc_cuid cj) false _ resp); [|cbn [ps_cl] in H2; rewrite H1 in H2; injection H2 as <-; lia].
      cbn [ps_cl] in H2. destruct (G _ _ _ _ H1 H2) as [[E1 E2]|E3]; [|subst c'; lia]. subst j c'. rewrite H1 in Ej. injection Ej as <-. cbn. lia.
  Qed.
End Proto.
