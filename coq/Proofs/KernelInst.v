(* The generic datatype facts instantiated with the three kernels that the
   correspondence check validates against the Go code (CheckCrdt's instances). *)
From Coq Require Import List NArith ZArith Bool Lia.
From Orda.Model Require Import Base Time Ops Counter Map List Datatype CheckCrdt.
From Orda.Proofs Require Import DatatypeFacts.
Import ListNotations.

Lemma id_import_export {A} (s : A) : id_ (id_ s) = s. Proof. reflexivity. Qed.

(* ---- counter ---- *)
Lemma c_local_id s c i s' o r : c_local' s c i = LOk s' o r -> op_id o = i.
Proof. destruct c; cbn. intros [= _ <- _]. reflexivity. Qed.
Lemma c_local_not_tx s c i s' o r : c_local' s c i = LOk s' o r -> is_tx o = false.
Proof. destruct c; cbn. intros [= _ <- _]. reflexivity. Qed.

(* ---- map ---- *)
Lemma m_local_id s c i s' o r : m_local' s c i = LOk s' o r -> op_id o = i.
Proof.
  unfold m_local', m_exec_local. destruct c.
  - destruct (m_put s k v (opid_ts i)). intros [= _ <- _]. reflexivity.
  - destruct (m_remove_local s k (opid_ts i)) as [[? ?]|]; [|discriminate]. intros [= _ <- _]. reflexivity.
Qed.
Lemma m_local_not_tx s c i s' o r : m_local' s c i = LOk s' o r -> is_tx o = false.
Proof.
  unfold m_local', m_exec_local. destruct c.
  - destruct (m_put s k v (opid_ts i)). intros [= _ <- _]. reflexivity.
  - destruct (m_remove_local s k (opid_ts i)) as [[? ?]|]; [|discriminate]. intros [= _ <- _]. reflexivity.
Qed.

(* ---- list ---- *)
Lemma l_local_id s c i s' o r : l_local' s c i = LOk s' o r -> op_id o = i.
Proof.
  unfold l_local', l_exec_local. destruct c.
  - destruct (ins_local _ _ _) as [[? ?]|]; [|discriminate]. intros [= _ <- _]. reflexivity.
  - destruct (l_delete_local _ _ _ _) as [[[? ?] ?]|]; [|discriminate]. intros [= _ <- _]. reflexivity.
  - destruct (l_update_local _ _ _ _) as [[[? ?] ?]|]; [|discriminate]. intros [= _ <- _]. reflexivity.
Qed.
Lemma l_local_not_tx s c i s' o r : l_local' s c i = LOk s' o r -> is_tx o = false.
Proof.
  unfold l_local', l_exec_local. destruct c.
  - destruct (ins_local _ _ _) as [[? ?]|]; [|discriminate]. intros [= _ <- _]. reflexivity.
  - destruct (l_delete_local _ _ _ _) as [[[? ?] ?]|]; [|discriminate]. intros [= _ <- _]. reflexivity.
  - destruct (l_update_local _ _ _ _) as [[[? ?] ?]|]; [|discriminate]. intros [= _ <- _]. reflexivity.
Qed.

(* ---------- C09 ---------- *)
Definition c_run := drun cstate ccall val cstate c_validate c_local' c_exec_remote id_ id_.
Definition m_run := drun mstate mcall (option val) mstate m_validate m_local' m_exec_remote id_ id_.
Definition l_run := drun lstate lcall (list val) lstate l_validate l_local' l_exec_remote id_ id_.
Definition c_tx := transaction cstate ccall val cstate c_validate c_local' c_exec_remote id_ id_.
Definition m_tx := transaction mstate mcall (option val) mstate m_validate m_local' m_exec_remote id_ id_.
Definition l_tx := transaction lstate lcall (list val) lstate l_validate l_local' l_exec_remote id_ id_.
Definition c_new := dt_create cstate ccall cstate c_init id_.
Definition m_new := dt_create mstate mcall mstate m_init id_.
Definition l_new := dt_create lstate lcall lstate l_init id_.

Theorem counter_abort_restores c es d tag cs : c_run (c_new c) es = Some d ->
  let d' := fst (c_tx d tag cs true) in
  d_snap d' = d_snap d /\ d_oid d' = d_oid d /\ d_buf d' = d_buf d /\ d_cp d' = d_cp d.
Proof. apply abort_restores_anywhere; [apply id_import_export|apply c_local_id|apply c_local_not_tx]. Qed.
Theorem map_abort_restores c es d tag cs : m_run (m_new c) es = Some d ->
  let d' := fst (m_tx d tag cs true) in
  d_snap d' = d_snap d /\ d_oid d' = d_oid d /\ d_buf d' = d_buf d /\ d_cp d' = d_cp d.
Proof. apply abort_restores_anywhere; [apply id_import_export|apply m_local_id|apply m_local_not_tx]. Qed.
Theorem list_abort_restores c es d tag cs : l_run (l_new c) es = Some d ->
  let d' := fst (l_tx d tag cs true) in
  d_snap d' = d_snap d /\ d_oid d' = d_oid d /\ d_buf d' = d_buf d /\ d_cp d' = d_cp d.
Proof. apply abort_restores_anywhere; [apply id_import_export|apply l_local_id|apply l_local_not_tx]. Qed.

(* ---------- C10 at datatype level ---------- *)
Definition c_import := dt_import cstate ccall cstate id_ id_.
Definition m_import := dt_import mstate mcall mstate id_ id_.
Definition l_import := dt_import lstate lcall lstate id_ id_.
Theorem counter_restored_indistinguishable c es0 d fresh es : c_run (c_new c) es0 = Some d ->
  let r := c_import fresh (d_snap d) (d_oid d) in
  d_snap r = d_snap d /\ d_oid r = d_oid d /\
  match c_run d es, c_run r es with Some d', Some r' => d_snap r' = d_snap d' /\ d_oid r' = d_oid d' | None, None => True | _, _ => False end.
Proof. apply restored_is_indistinguishable_anywhere; [apply id_import_export|apply c_local_id|apply c_local_not_tx]. Qed.
Theorem map_restored_indistinguishable c es0 d fresh es : m_run (m_new c) es0 = Some d ->
  let r := m_import fresh (d_snap d) (d_oid d) in
  d_snap r = d_snap d /\ d_oid r = d_oid d /\
  match m_run d es, m_run r es with Some d', Some r' => d_snap r' = d_snap d' /\ d_oid r' = d_oid d' | None, None => True | _, _ => False end.
Proof. apply restored_is_indistinguishable_anywhere; [apply id_import_export|apply m_local_id|apply m_local_not_tx]. Qed.
Theorem list_restored_indistinguishable c es0 d fresh es : l_run (l_new c) es0 = Some d ->
  let r := l_import fresh (d_snap d) (d_oid d) in
  d_snap r = d_snap d /\ d_oid r = d_oid d /\
  match l_run d es, l_run r es with Some d', Some r' => d_snap r' = d_snap d' /\ d_oid r' = d_oid d' | None, None => True | _, _ => False end.
Proof. apply restored_is_indistinguishable_anywhere; [apply id_import_export|apply l_local_id|apply l_local_not_tx]. Qed.


(* a committed transaction is one contiguous unit headed by its length (list instance; the
   statement is generic in the kernel, see DatatypeFacts.commit_is_unit) *)
Theorem list_commit_is_unit c es d tag cs : l_run (l_new c) es = Some d ->
  let '(d', rs) := l_tx d tag cs false in
  Forall (fun r => r <> Panicked) rs ->
  exists ops, d_buf d' = d_buf d ++ OTx (opid_next (d_oid d)) tag (Z.of_nat (S (length ops))) :: ops /\
              Forall (fun o => is_tx o = false) ops.
Proof.
  intros Hrun.
  assert (Hi : RbInv lstate lcall (list val) lstate l_local' l_exec_remote id_ d).
  { eapply run_inv; [apply id_import_export|apply l_local_id|apply l_local_not_tx| |exact Hrun].
    apply create_inv. apply id_import_export. }
  pose proof (commit_is_unit lstate lcall (list val) lstate l_validate l_local' l_exec_remote id_ id_
                l_local_id l_local_not_tx d tag cs Hi) as H.
  unfold l_tx. destruct (transaction _ _ _ _ _ _ _ _ _ d tag cs false) as [d' rs].
  intros Hf. destruct (H Hf) as [ops [H1 [H2 _]]]. exists ops. auto.
Qed.

(* a remotely delivered unit whose header announces exactly its length: all of it is applied
   (the header itself is not executed unless the unit is the header alone) *)
Theorem remote_unit_all (St call J : Type) (k_remote : St -> op -> St) (d : @dt St call J) i tag body :
  receive_ops St call J k_remote d (OTx i tag (Z.of_nat (S (length body))) :: body) =
    match body with
    | [] => ROk _ _ _ (remote_op St call J k_remote d (OTx i tag 1%Z))
    | _ => ROk _ _ _ (fold_left (remote_op St call J k_remote) body d)
    end.
Proof.
  unfold receive_ops. cbn [length receive].
  destruct (Z.ltb_spec (Z.of_nat (S (length body))) 1); [lia|].
  destruct (Z.ltb_spec (Z.of_nat (S (length body))) (Z.of_nat (S (length body)))); [lia|]. cbn [orb].
  rewrite Nat2Z.id. cbn [firstn skipn]. rewrite firstn_all, skipn_all. destruct body as [|b body].
  - cbn. reflexivity.
  - destruct (Z.eqb_spec (Z.of_nat (S (length (b :: body)))) 1); [cbn [length] in *; lia|].
    cbn [tl]. destruct (length (b :: body)); reflexivity.
Qed.

(* a truncated unit, or one whose count is zero, negative or too large: refused, nothing applied *)
Theorem remote_unit_none (St call J : Type) (k_remote : St -> op -> St) (d : @dt St call J) i tag n body :
  (n < 1 \/ Z.of_nat (S (length body)) < n)%Z ->
  receive_ops St call J k_remote d (OTx i tag n :: body) = RError _ _ _ d.
Proof.
  intros H. unfold receive_ops. cbn [length receive].
  destruct (Z.ltb_spec n 1); [reflexivity|]. destruct (Z.ltb_spec (Z.of_nat (S (length body))) n); [reflexivity|lia].
Qed.
