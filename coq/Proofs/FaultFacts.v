(* C08: a storage command failing while a pack is served. *)
From Coq Require Import List NArith ZArith Bool Lia.
From Orda.Model Require Import Base Time Ops Server.
From Orda.Proofs Require Import TimeFacts MapFacts ServerFacts.
Import ListNotations.
Open Scope N_scope.

(* the part of the store that has been acknowledged: datatype documents, and for each the operation
   documents up to its recorded end of log *)
Definition within_log (db : sdb) (o : odoc) : bool :=
  match find_dt db (od_duid o) with Some d => od_sseq o <=? dd_end d | None => false end.

(* what a failed command may leave behind: operation documents beyond the recorded end of a log *)
Definition leftovers_only (db db' : sdb) : Prop :=
  s_dts db' = s_dts db /\ same_tables db db' /\
  exists extra, s_ops db' = s_ops db ++ extra /\
                Forall (fun o => match find_dt db (od_duid o) with
                                 | Some d => dd_end d < od_sseq o
                                 | None => True
                                 end) extra.

Lemma leftovers_refl db : leftovers_only db db.
Proof. split; [reflexivity|]. split; [repeat split|]. exists []. rewrite app_nil_r. split; [reflexivity|constructor]. Qed.

Definition contained (db : sdb) (out out0 : sdb * ppp * list publish) : Prop :=
  let '(db', resp, pubs) := out in
  (p_err resp <> None /\ pubs = [] /\ leftovers_only db db') \/ out = out0.

Lemma finish_fault fp db colname col cuid req ro d0 duid ops opt eduid :
  LogInv db -> duid = dd_duid d0 -> dd_col d0 = col ->
  (In d0 (s_dts db) \/ find_dt db (dd_duid d0) = None /\ dd_end d0 = 0) ->
  contained db (finish_pack_f (Some fp) db colname col cuid req ro d0 duid ops opt eduid)
               (finish_pack_f None db colname col cuid req ro d0 duid ops opt eduid).
Proof.
  intros Hinv -> Hcol Hd0. destruct Hinv as [Hnd Hdt Horph Hkey].
  set (D := dd_duid d0). set (e := dd_end d0).
  assert (Hs : map od_sseq (ops_of (s_ops db) D) = nseq 1 (N.to_nat e)).
  { destruct Hd0 as [Hin|[Hf He]].
    - apply (di_sseq _ _ (Hdt d0 Hin)).
    - unfold e. rewrite He. cbn. replace (ops_of (s_ops db) D) with (@nil odoc); [reflexivity|].
      symmetry. unfold ops_of. destruct (filter _ (s_ops db)) as [|o l] eqn:Ef; [reflexivity|]. exfalso.
      assert (Ho : In o (filter (fun o => str_eqb (od_duid o) D) (s_ops db))) by (rewrite Ef; left; reflexivity).
      apply filter_In in Ho. destruct Ho as [Ho1 Ho2]. apply str_eqb_eq in Ho2.
      destruct (Horph o Ho1) as [d [Hd1 Hd2]]. apply (find_dt_none _ _ Hf d Hd1). rewrite Hd2, Ho2. reflexivity. }
  assert (Hfind : forall d, find_dt db D = Some d -> dd_end d = e).
  { intros d Hf. apply find_dt_spec in Hf. destruct Hf as [Hin Hdu]. destruct Hd0 as [Hin0|[Hf0 _]].
    - assert (d = d0) by (eapply nodup_map_in_inj; eauto). subst. reflexivity.
    - exfalso. apply (find_dt_none _ _ Hf0 d Hin). exact Hdu. }
  unfold contained, finish_pack_f. fold D. fold e.
  set (cp0 := match alookup str_eqb cuid (clients_of d0 ro) with Some c => c | None => mkCp 0 0 end).
  destruct (if ro then Some (mkCp e (cseq cp0), []) else push_ops D col (mkCp e (cseq cp0)) ops []) as [[cp1 newdocs]|] eqn:Ep;
    [|right; reflexivity].
  assert (Hnew : map od_sseq newdocs = nseq (e + 1) (length newdocs) /\ Forall (fun o => od_duid o = D) newdocs).
  { destruct ro.
    - injection Ep as _ <-. split; [reflexivity|constructor].
    - apply push_ops_spec in Ep. destruct Ep as [new [H1 [H2 [_ [_ [H5 _]]]]]]. cbn [app sseq] in *. subst newdocs.
      split; [exact H2|]. eapply Forall_impl; [|exact H5]. intros o [H _]. exact H. }
  destruct Hnew as [Hn1 Hn2].
  rewrite (purge_noop (s_ops db) D e Hs).
  assert (Hextra : Forall (fun o => match find_dt db (od_duid o) with Some d => dd_end d < od_sseq o | None => True end) newdocs).
  { apply Forall_forall. intros o Ho.
    assert (Hd : od_duid o = D) by (rewrite Forall_forall in Hn2; apply Hn2; exact Ho).
    rewrite Hd. destruct (find_dt db D) as [d|] eqn:Ef; [|exact I]. rewrite (Hfind d eq_refl).
    assert (Hin : In (od_sseq o) (map od_sseq newdocs)) by (apply in_map; exact Ho).
    rewrite Hn1 in Hin. apply nseq_in in Hin. lia. }
  pose proof (insert_ops_fresh D newdocs (s_ops db) e Hs Hn2 Hn1) as Hins.
  destruct fp; destruct (has (p_opt req) bit_snapshot); destruct newdocs as [|nd nds]; cbv beta iota zeta;
    rewrite ?Hins; cbv beta iota zeta;
    try (right; reflexivity);
    left; cbn [p_err]; (split; [discriminate|]); (split; [reflexivity|]);
    try apply leftovers_refl;
    (split; [reflexivity|]); (split; [repeat split|]);
    first [ exists []; rewrite app_nil_r; split; [reflexivity|constructor]
          | exists (nd :: nds); split; [reflexivity|exact Hextra] ].
Qed.

(* whichever command fails, from a consistent store: every datatype document (end of log, client
   checkpoints) is untouched, every stored operation is still there, and all that may have been added
   are documents beyond the end of a log; and either the client is told (error response, nothing
   published) or the failing command was not reached at all (the outcome is the fault-free one) *)
Theorem fault_is_contained fp db colname col cuid req :
  LogInv db ->
  contained db (handle_pack_f (Some fp) db colname col cuid req) (handle_pack db colname col cuid req).
Proof.
  intros Hinv. unfold handle_pack, handle_pack_f.
  destruct (has (p_opt req) bit_readonly && _) eqn:Ev; [right; reflexivity|].
  destruct (evaluate db col cuid (has (p_opt req) bit_readonly) req) as [c d] eqn:He.
  pose proof (decide_spec _ _ _ _ _ _ _ He) as S.
  destruct fp; try (left; cbn [p_err error_resp]; split; [discriminate|split; [reflexivity|apply leftovers_refl]]).
  all: destruct (decide col req c d) as [| | |code].
  all: try (right; reflexivity).
  all: try (destruct S as [_ [S2 S3]]; apply finish_fault; auto; right; cbn; auto).
  all: try (destruct S as [d0 [-> [S1 [S2 S3]]]]; apply finish_fault; auto).
  all: try (destruct d; right; reflexivity).
Qed.
