(* C08 at system level: the system of ProtocolJoin.v (clients issuing operations, syncing, joining late, answers lost,
   late and repeated) in which, additionally, a storage command may fail during any exchange — any command, any exchange,
   any number of times.  The store may then carry operation documents beyond the recorded end of a log; seen through
   [clean] (Recovery.v) every step with a fault is either no step at all (the client got an error and keeps what it has)
   or the fault-free step; so the invariant of the fault-free system holds for the acknowledged part of the store in
   every reachable state, and retries bring every client to the fault-free outcome. *)
From Coq Require Import List NArith ZArith Bool Lia.
From Orda.Model Require Import Base Time Ops Server Wire.
From Orda.Proofs Require Import TimeFacts MapFacts ServerFacts ClientOrder WireFacts ExchangeFacts Protocol ProtocolLate ProtocolJoin
     FaultFacts Recovery.
Import ListNotations.
Open Scope N_scope.

Section Fault.
  Variables (colname : str) (col : N) (D key : str) (ty : N).
  Notation pstep' := (pstep colname col D key ty).
  Notation jstep' := (jstep colname col D key ty).

  (* one exchange of client i, the command at f (if any) failing: the new base system and the answer that went out *)
  Definition gsync (f : option fpoint) (b : psys) (i : nat) (lost : bool) : psys * option ppp :=
    match nth_error (ps_cl b) i, find_dt (ps_db b) D with
    | Some c, Some d0 =>
        let n := N.of_nat (length (pc_buf c)) in
        if (dd_end d0 + n <? big) && (cseq (rec_of d0 (pc_cuid c)) + n <? big) then
          let '(db', resp, _) := handle_pack_f f (ps_db b) colname col (pc_cuid c) (preq D key ty c) in
          (match p_err resp, lost with
           | None, false =>
               match incoming (pc_cuid c) false (mkCp (pc_s c) (pc_cc c)) resp with
               | Some ops =>
                   let s' := N.max (pc_s c) (sseq (p_cp resp)) in
                   let cc' := N.max (pc_cc c) (cseq (p_cp resp)) in
                   mkPs db' (upd_nth (ps_cl b) i
                               (mkPc (pc_cuid c) s' cc' (skipn (N.to_nat (cc' - pc_cc c)) (pc_buf c)) (pc_exec c ++ ops)))
               | None => mkPs db' (ps_cl b)
               end
           | _, _ => mkPs db' (ps_cl b)
           end,
           match p_err resp with None => Some resp | Some _ => None end)
        else (b, None)
    | _, _ => (b, None)
    end.

  Lemma gsync_none b i lost : gsync None b i lost = (pstep' b (PSync i lost), answer_now colname col D key ty b i).
  Proof.
    unfold gsync, answer_now. cbn [pstep]. destruct (nth_error (ps_cl b) i) as [c|]; [|destruct b; reflexivity].
    destruct (find_dt (ps_db b) D) as [d0|]; [|destruct b; reflexivity].
    destruct (_ && _); [|destruct b; reflexivity]. fold (handle_pack (ps_db b) colname col (pc_cuid c) (preq D key ty c)).
    destruct (handle_pack _ _ _ _ _) as [[db' resp] pubs]. reflexivity.
  Qed.

  (* a late subscriber's Subscribe(key), the command at f failing *)
  Definition gjoin (f : option fpoint) (st : lsys) (v Dv : str) (orc : option op) : lsys :=
    let b := l_base st in
    if existsb (fun c => str_eqb (pc_cuid c) v) (ps_cl b) || negb (own_snapshot v orc) then st else
    match find_dt (ps_db b) D with
    | Some d0 =>
        match alookup str_eqb v (dd_rw d0) with
        | Some _ => st
        | None =>
            let req := join_req key ty Dv orc in
            let '(db', resp, _) := handle_pack_f f (ps_db b) colname col v req in
            match p_err resp with
            | Some _ => mkLs (mkPs db' (ps_cl b)) (l_fly st)
            | None =>
                let c0 := mkCp (u64sub (sseq (p_cp resp)) (N.of_nat (length (p_ops resp)))) (cseq (p_cp resp)) in
                match incoming v true c0 resp with
                | Some ops =>
                    mkLs (mkPs db' (ps_cl b ++ [mkPc v (N.max (sseq c0) (sseq (p_cp resp))) (N.max (cseq c0) (cseq (p_cp resp))) [] ops]))
                         (l_fly st)
                | None => mkLs (mkPs db' (ps_cl b)) (l_fly st)
                end
            end
        end
    | None => st
    end.

  Definition gstep (f : option fpoint) (st : lsys) (ev : jev) : lsys :=
    match ev with
    | JBase (LBase (PSync i lost)) =>
        let '(b', a) := gsync f (l_base st) i lost in
        mkLs b' (match a with Some r => add_fly (l_fly st) i r | None => l_fly st end)
    | JJoin v Dv orc => gjoin f st v Dv orc
    | _ => jstep' st ev
    end.

  Lemma gstep_none st ev : gstep None st ev = jstep' st ev.
  Proof.
    destruct ev as [[[i o|i lost]|i j]|v Dv orc]; try reflexivity.
    cbn [gstep jstep lstep]. rewrite gsync_none. reflexivity.
  Qed.

  (* the system seen through its acknowledged store *)
  Definition cl (st : lsys) : lsys := mkLs (mkPs (clean (ps_db (l_base st))) (ps_cl (l_base st))) (l_fly st).
  Definition dbof (st : lsys) : sdb := ps_db (l_base st).

  Lemma cl_rebuild db cls fly : cl (mkLs (mkPs db cls) fly) = mkLs (mkPs (clean db) cls) fly.
  Proof. reflexivity. Qed.

  Theorem gstep_erased f st ev :
    WInv (dbof st) ->
    WInv (dbof (gstep f st ev)) /\
    ((f <> None /\ cl (gstep f st ev) = cl st) \/ cl (gstep f st ev) = jstep' (cl st) ev).
  Proof.
    intros Hw. destruct st as [[db cls] fly]. unfold dbof in *. cbn [l_base ps_db] in Hw.
    destruct ev as [[[i o|i lost]|i j]|v Dv orc].
    - (* a local operation *)
      unfold cl. cbn [gstep jstep lstep pstep l_base ps_cl ps_db l_fly]. destruct (nth_error cls i) as [c|]; [|split; [exact Hw|right; reflexivity]].
      destruct (_ && _); (split; [exact Hw|right; reflexivity]).
    - (* an exchange *)
      assert (R : jstep' (cl (mkLs (mkPs db cls) fly)) (JBase (LBase (PSync i lost))) =
                  let '(b', a) := gsync None (mkPs (clean db) cls) i lost in
                  mkLs b' (match a with Some r => add_fly fly i r | None => fly end)) by (rewrite gsync_none; reflexivity).
      rewrite R. clear R. cbn [gstep l_base l_fly].
      unfold gsync. cbn [ps_cl ps_db].
      destruct (nth_error cls i) as [c|]; [|split; [exact Hw|right; reflexivity]].
      change (find_dt (clean db) D) with (find_dt db D).
      destruct (find_dt db D) as [d0|]; [|split; [exact Hw|right; reflexivity]].
      destruct (_ && _); [|split; [exact Hw|right; reflexivity]].
      pose proof (pack_erased f db colname col (pc_cuid c) (preq D key ty c) Hw) as E. unfold handle_pack in E.
      destruct (handle_pack_f f db colname col (pc_cuid c) (preq D key ty c)) as [[db' resp] pubs].
      destruct E as [Hw' [_ [[Hf [Herr [_ Hc]]]|E]]].
      + destruct (p_err resp) as [code|]; [|congruence]. cbn [l_base ps_db]. split; [exact Hw'|]. left. split; [exact Hf|].
        rewrite ?cl_rebuild; cbn [l_base ps_db ps_cl l_fly]; rewrite Hc; reflexivity.
      + rewrite E. destruct (p_err resp) as [code|]; [cbn [l_base ps_db]; split; [exact Hw'|right; reflexivity]|].
        destruct lost; [cbn [l_base ps_db]; split; [exact Hw'|right; reflexivity]|].
        destruct (incoming _ _ _ _); cbn [l_base ps_db]; (split; [exact Hw'|right; reflexivity]).
    - (* a late answer *)
      unfold cl, fly_of. cbn [gstep jstep lstep l_base ps_cl ps_db l_fly]. unfold fly_of. cbn [l_fly l_base ps_cl ps_db]. destruct (nth_error cls i) as [c|]; [|split; [exact Hw|right; reflexivity]].
      destruct (nth_error (nth i fly []) j) as [resp|]; [|split; [exact Hw|right; reflexivity]].
      destruct (incoming _ _ _ _); (split; [exact Hw|right; reflexivity]).
    - (* a late subscriber *)
      unfold cl. cbn [gstep jstep]. unfold gjoin. cbn [l_base ps_cl ps_db l_fly].
      destruct (existsb _ cls || negb (own_snapshot v orc)); [split; [exact Hw|right; reflexivity]|].
      change (find_dt (clean db) D) with (find_dt db D).
      destruct (find_dt db D) as [d0|]; [|split; [exact Hw|right; reflexivity]].
      destruct (alookup str_eqb v (dd_rw d0)); [split; [exact Hw|right; reflexivity]|].
      pose proof (pack_erased f db colname col v (join_req key ty Dv orc) Hw) as E. unfold handle_pack in E.
      destruct (handle_pack_f f db colname col v _) as [[db' resp] pubs].
      destruct E as [Hw' [_ [[Hf [Herr [_ Hc]]]|E]]].
      + destruct (p_err resp) as [code|]; [|congruence]. cbn [l_base ps_db]. split; [exact Hw'|]. left. split; [exact Hf|].
        rewrite ?cl_rebuild; cbn [l_base ps_db ps_cl l_fly]; rewrite Hc; reflexivity.
      + unfold handle_pack. rewrite E. destruct (p_err resp) as [code|]; [cbn [l_base ps_db]; split; [exact Hw'|right; reflexivity]|].
        destruct (incoming _ _ _ _); cbn [l_base ps_db]; (split; [exact Hw'|right; reflexivity]).
  Qed.

  (* ---------- runs with faults ---------- *)
  Definition xrun (st : lsys) (evs : list (option fpoint * jev)) : lsys := fold_left (fun st fe => gstep (fst fe) st (snd fe)) evs st.

  (* the invariant with faults: the acknowledged store with the clients satisfies the fault-free invariant *)
  Definition XInv (st : lsys) : Prop := WInv (dbof st) /\ JInv col D key ty (cl st).

  Theorem xstep_inv f st ev : XInv st -> XInv (gstep f st ev).
  Proof.
    intros [Hw HJ]. destruct (gstep_erased f st ev Hw) as [Hw' [[_ E]|E]]; (split; [exact Hw'|]); rewrite E; [exact HJ|].
    apply jstep_inv. exact HJ.
  Qed.
  Theorem xrun_inv evs : forall st, XInv st -> XInv (xrun st evs).
  Proof. induction evs as [|[f ev] evs IH]; intros st H; cbn [xrun fold_left fst snd]; [exact H|]. apply IH, xstep_inv, H. Qed.

  (* a run with faults is, through [clean], a fault-free run of a sub-sequence of its events — those not hit by their fault *)
  Inductive subseq {A} : list A -> list A -> Prop :=
  | sub_nil : subseq [] []
  | sub_keep x l1 l2 : subseq l1 l2 -> subseq (x :: l1) (x :: l2)
  | sub_drop x l1 l2 : subseq l1 l2 -> subseq l1 (x :: l2).

  Theorem faulty_run_is_a_fault_free_run evs : forall st, WInv (dbof st) ->
    exists evs', subseq evs' (map snd evs) /\ cl (xrun st evs) = jrun colname col D key ty (cl st) evs' /\
                 (* events without a fault are all kept *)
                 (Forall (fun fe => fst fe = None) evs -> evs' = map snd evs).
  Proof.
    induction evs as [|[f ev] evs IH]; intros st Hw.
    - exists []. split; [constructor|]. split; reflexivity.
    - change (xrun st ((f, ev) :: evs)) with (xrun (gstep f st ev) evs). cbn [map snd].
      destruct (gstep_erased f st ev Hw) as [Hw' [[Hf E]|E]]; destruct (IH _ Hw') as [evs' [S [R K]]].
      + exists evs'. split; [constructor; exact S|]. split; [rewrite R, E; reflexivity|].
        intros HF. apply Forall_inv in HF. cbn in HF. contradiction.
      + exists (ev :: evs'). split; [constructor; exact S|]. split; [rewrite R, E; reflexivity|].
        intros HF. rewrite K; [reflexivity|]. inversion HF; assumption.
  Qed.

  (* C08 over every history with storage faults, lost, late and repeated answers and late subscribers:
     in every reachable state the acknowledged store is a consistent store — gapless logs 1..End, every client's
     operations exactly once in issue order — and every client has executed exactly the foreign operations of the log
     prefix it has seen, in log order, each once *)
  Theorem faults_exactly_once st0 evs :
    XInv st0 ->
    let st := xrun st0 evs in let db := clean (dbof st) in
    WInv (dbof st) /\ LogInv db /\
    (forall c, In c (ps_cl (l_base st)) ->
       pc_exec c = foreign (pc_cuid c) (firstn (N.to_nat (pc_s c)) (logops D db))) /\
    (forall d u, In d (s_dts db) -> seqs_of (s_ops db) (dd_duid d) u = nseq 1 (N.to_nat (ack d u))).
  Proof.
    intros H0. cbv zeta. pose proof (xrun_inv evs st0 H0) as [Hw HJ].
    pose proof (joiners_exactly_once colname col D key ty (cl (xrun st0 evs)) [] HJ) as J. cbv zeta in J. cbn [jrun fold_left] in J.
    split; [exact Hw|]. exact J.
  Qed.

  (* ... and a client that has synced up to the end of the log after the faults has executed the whole log but its own
     operations: retries converge to the fault-free outcome *)
  Theorem faults_quiescent st0 evs :
    XInv st0 ->
    let st := xrun st0 evs in let db := clean (dbof st) in
    forall d0, In d0 (s_dts db) -> dd_duid d0 = D ->
    forall c, In c (ps_cl (l_base st)) -> pc_s c = dd_end d0 ->
      pc_exec c = foreign (pc_cuid c) (logops D db).
  Proof.
    intros H0. cbv zeta. intros d0 Hin Hd c Hc Hs. destruct (faults_exactly_once st0 evs H0) as [_ [Hinv [Hex _]]]. cbv zeta in Hinv, Hex.
    rewrite (Hex c Hc), Hs. destruct (logops_len D _ d0 Hinv Hin Hd) as [_ Hlen]. rewrite <- Hlen, firstn_all. reflexivity.
  Qed.

  Lemma XInv_of_JInv st : JInv col D key ty st -> XInv st.
  Proof.
    intros HJ. pose proof HJ as [[[Hinv _] _] _]. split; [apply loginv_winv; exact Hinv|].
    unfold cl. rewrite (loginv_clean _ Hinv). destruct st as [[db cls] fly]. exact HJ.
  Qed.
End Fault.
