(* C05 / C17: other datatypes.  The protocol system of one datatype D (Protocol.v ... ProtocolFault.v) lives in a store
   that serves any number of other datatypes, of this and other collections, to any clients.  A pack that does not name D
   — neither by its identifier nor by (collection, key) — leaves D's document and D's log as they are, whatever it does
   otherwise and whichever command fails while it is served; so the invariant of D's system, and everything it implies,
   holds in every history in which D's events are interleaved with arbitrary such traffic. *)
From Coq Require Import List NArith ZArith Bool Lia.
From Orda.Model Require Import Base Time Ops Server Wire.
From Orda.Proofs Require Import TimeFacts MapFacts ServerFacts ClientOrder WireFacts ExchangeFacts Protocol ProtocolLate ProtocolJoin
     FaultFacts Recovery ProtocolFault ProtocolCreate.
Import ListNotations.
Open Scope N_scope.

(* ---------- a pack leaves alone what it does not name (no invariant needed) ---------- *)
Lemma upsert_other l d1 d : dd_duid d <> dd_duid d1 -> (In d (upsert_dt l d1) <-> In d l).
Proof.
  intros Hne. induction l as [|x l IH]; cbn [upsert_dt].
  - split; [intros [E|[]]; subst; congruence|intros []].
  - destruct (str_eqb (dd_duid x) (dd_duid d1)) eqn:E.
    + apply str_eqb_eq in E. split; (intros [H|H]; [subst; congruence|right; exact H]).
    + cbn [In]. rewrite IH. tauto.
Qed.

Lemma ops_of_filter_other l D (p : odoc -> bool) : (forall o, In o l -> od_duid o = D -> p o = true) ->
  ops_of (filter p l) D = ops_of l D.
Proof.
  intros H. unfold ops_of. rewrite filter_filter. apply filter_ext_in'. intros o Ho.
  destruct (str_eqb (od_duid o) D) eqn:E; [|apply andb_false_r]. apply str_eqb_eq in E. rewrite (H o Ho E). reflexivity.
Qed.

Lemma insert_ops_other D : forall new stored, Forall (fun o => od_duid o <> D) new ->
  ops_of (fst (insert_ops stored new)) D = ops_of stored D.
Proof.
  induction new as [|o new IH]; intros stored Hn; cbn [insert_ops fst]; [reflexivity|].
  destruct (has_opdoc stored (od_duid o) (od_sseq o)); [reflexivity|]. inversion Hn as [|? ? Ho Hn']; subst.
  rewrite (IH _ Hn'), ops_of_app. cbn [ops_of filter].
  destruct (str_eqb (od_duid o) D) eqn:E; [apply str_eqb_eq in E; contradiction|]. apply app_nil_r.
Qed.

Definition dts_of_D (db : sdb) (D : str) : list ddoc := filter (fun d => str_eqb (dd_duid d) D) (s_dts db).

Lemma finish_frame f db colname col cuid req ro d0 duid ops opt eduid D :
  duid <> D -> dd_duid d0 <> D ->
  let db' := db_of (finish_pack_f f db colname col cuid req ro d0 duid ops opt eduid) in
  ops_of (s_ops db') D = ops_of (s_ops db) D /\ (forall d, dd_duid d = D -> (In d (s_dts db') <-> In d (s_dts db))).
Proof.
  intros Hd Hd0. unfold finish_pack_f, db_of.
  set (cp0 := match alookup str_eqb cuid (clients_of d0 ro) with Some c => c | None => mkCp 0 0 end).
  assert (Same : ops_of (s_ops db) D = ops_of (s_ops db) D /\ (forall d, dd_duid d = D -> (In d (s_dts db) <-> In d (s_dts db)))) by (split; [reflexivity|tauto]).
  destruct (if ro then Some (mkCp (dd_end d0) (cseq cp0), []) else push_ops duid col (mkCp (dd_end d0) (cseq cp0)) ops []) as [[cp1 newdocs]|] eqn:Ep; [|exact Same].
  assert (Hnew : Forall (fun o => od_duid o <> D) newdocs).
  { destruct ro; [injection Ep as _ <-; constructor|].
    pose proof (push_ops_spec _ _ _ _ _ _ _ Ep) as [new0 [H1 [_ [_ [_ [H5 _]]]]]]. cbn [app] in H1. subst new0.
    eapply Forall_impl; [|exact H5]. cbn. intros o [E _]. congruence. }
  assert (Hpurge : ops_of (purge_after (s_ops db) duid (dd_end d0)) D = ops_of (s_ops db) D).
  { unfold purge_after. apply ops_of_filter_other. intros o _ Eo. destruct (str_eqb (od_duid o) duid) eqn:E; [|reflexivity].
    apply str_eqb_eq in E. congruence. }
  set (purged := if match newdocs with [] => false | _ => true end then purge_after (s_ops db) duid (dd_end d0) else s_ops db).
  assert (Hpg : ops_of purged D = ops_of (s_ops db) D) by (unfold purged; destruct newdocs; [reflexivity|exact Hpurge]).
  pose proof (insert_ops_other D newdocs purged Hnew) as Hins.
  assert (Hup : forall c e d, dd_duid d = D -> (In d (upsert_dt (s_dts db) (set_end (set_client d0 ro cuid c) e)) <-> In d (s_dts db))).
  { intros c e d Ed. apply upsert_other. rewrite Ed. unfold set_end, set_client. destruct ro; cbn; congruence. }
  assert (Keep : forall ops', ops_of ops' D = ops_of (s_ops db) D ->
            ops_of (s_ops (mkSdb (s_cols db) (s_colctr db) (s_clients db) (s_dts db) ops')) D = ops_of (s_ops db) D /\
            (forall d, dd_duid d = D -> (In d (s_dts (mkSdb (s_cols db) (s_colctr db) (s_clients db) (s_dts db) ops')) <-> In d (s_dts db))))
    by (intros ops' E; split; [exact E|cbn; tauto]).
  destruct f as [[| | | |]|]; destruct (has (p_opt req) bit_snapshot); destruct newdocs as [|n0 nl] eqn:En; cbn [fst snd];
    try exact Same;
    try (destruct (insert_ops purged _) as [stored ok] eqn:Ei; cbn [fst] in Hins; destruct ok; cbn [fst s_ops s_dts];
         first [exact (Keep _ (eq_trans Hins Hpg)) | split; [exact (eq_trans Hins Hpg)|apply Hup]]);
    try (apply Keep; exact Hpg).
Qed.

Lemma pack_frame f db colname col cuid req D :
  p_duid req <> D -> (forall dk, find_dt_by_key db col (p_key req) = Some dk -> dd_duid dk <> D) ->
  let db' := db_of (handle_pack_f f db colname col cuid req) in
  ops_of (s_ops db') D = ops_of (s_ops db) D /\ (forall d, dd_duid d = D -> (In d (s_dts db') <-> In d (s_dts db))).
Proof.
  intros Hd Hk. unfold handle_pack_f.
  assert (Same : ops_of (s_ops db) D = ops_of (s_ops db) D /\ (forall d, dd_duid d = D -> (In d (s_dts db) <-> In d (s_dts db)))) by (split; [reflexivity|tauto]).
  destruct (has (p_opt req) bit_readonly && _); [exact Same|].
  destruct f as [[| | | |]|]; try exact Same.
  all: unfold evaluate.
  all: destruct (if has (p_opt req) bit_create || has (p_opt req) bit_subscribe then find_dt_by_key db col (p_key req) else None) as [dk|] eqn:Ek.
  all: try (assert (Hdk : dd_duid dk <> D) by (apply Hk; destruct (has (p_opt req) bit_create || has (p_opt req) bit_subscribe); [exact Ek|discriminate])).
  all: try (destruct (N.eqb (dd_type dk) (p_type req)); [destruct (alookup str_eqb cuid (clients_of dk (has (p_opt req) bit_readonly)))|]).
  all: try (destruct (find_dt db (p_duid req)) as [dd|] eqn:Ef; [pose proof (find_dt_spec _ _ _ Ef) as [_ Hdd]|]).
  all: match goal with |- context [decide ?a ?b ?c ?d] => destruct (decide a b c d) end.
  all: try exact Same.
  all: try (apply finish_frame; cbn [dd_duid]; congruence).
Qed.

Section Other.
  Variables (colname : str) (col : N) (D key : str) (ty : N).

  (* the invariant of D's system depends on the store only through D's document and D's log *)
  Lemma jinv_frame db cls fly db' :
    JInv col D key ty (mkLs (mkPs db cls) fly) -> LogInv db' -> ClientInv db' ->
    ops_of (s_ops db') D = ops_of (s_ops db) D ->
    (forall d, dd_duid d = D -> (In d (s_dts db') <-> In d (s_dts db))) ->
    JInv col D key ty (mkLs (mkPs db' cls) fly).
  Proof.
    intros [[HP HF] [HK HB]] Hinv' Hci' Hops Hdts. cbn [l_base ps_db ps_cl] in *.
    assert (HL : logops D db' = logops D db) by (unfold logops, logdocs; rewrite Hops; reflexivity).
    destruct HP as [_ [_ [Hnd [d0 [Hin [Hd [Hcol Hcl]]]]]]].
    split; [split|split].
    - split; [exact Hinv'|]. split; [exact Hci'|]. split; [exact Hnd|]. exists d0. split; [apply (Hdts d0 Hd); exact Hin|].
      split; [exact Hd|]. split; [exact Hcol|]. eapply Forall_impl; [|exact Hcl]. intros c Hc. unfold cinv in *. cbn [l_base ps_db] in *. rewrite HL. exact Hc.
    - cbn [l_base ps_db ps_cl]. intros dx Hx Hdx. apply (Hdts dx Hdx) in Hx. destruct (HF dx Hx Hdx) as [Hb Hf]. split; [exact Hb|].
      rewrite HL. exact Hf.
    - cbn [l_base ps_db]. intros d Hx Hdx. apply (Hdts d Hdx) in Hx. exact (HK d Hx Hdx).
    - exact HB.
  Qed.

  (* a pack of any client for another datatype: it names neither D's identifier nor D's (collection, key) *)
  Definition elsewhere (col' : N) (req : ppp) : Prop := p_duid req <> D /\ (col' <> col \/ p_key req <> key).

  Definition other_step (f : option fpoint) (st : lsys) (colname' : str) (col' : N) (u : str) (req : ppp) : lsys :=
    mkLs (mkPs (db_of (handle_pack_f f (dbof st) colname' col' u req)) (ps_cl (l_base st))) (l_fly st).

  Lemma other_step_inv f st colname' col' u req :
    XInv col D key ty st -> honest_pack u req -> elsewhere col' req -> XInv col D key ty (other_step f st colname' col' u req).
  Proof.
    intros [Hw HJ] Hh [He1 He2]. destruct st as [[db cls] fly]. unfold other_step, dbof, cl in *. cbn [l_base ps_db ps_cl l_fly] in *.
    pose proof (pack_erased f db colname' col' u req Hw) as E. unfold db_of.
    destruct (handle_pack_f f db colname' col' u req) as [[db' resp] pubs] eqn:Eh. cbn [fst].
    destruct E as [Hw' [_ E]]. split; [exact Hw'|]. unfold cl. cbn [l_base ps_db ps_cl l_fly].
    destruct E as [[_ [_ [_ Ec]]]|E]; [rewrite Ec; exact HJ|].
    pose proof HJ as [[[Hinv [Hci [_ [d0 [Hin [Hd [Hcol _]]]]]]] _] [HK _]]. cbn [l_base ps_db] in *.
    assert (Hkey : forall dk, find_dt_by_key (clean db) col' (p_key req) = Some dk -> dd_duid dk <> D).
    { intros dk Hf Hdk. destruct (find_key_spec _ _ _ _ Hf) as [Hik [Hck Hkk]].
      assert (dk = d0) by (eapply (nodup_map_in_inj dd_duid); [apply (li_nodup _ Hinv)|exact Hik|exact Hin|congruence]). subst dk.
      destruct (HK d0 Hin Hd) as [Hk0 _]. destruct He2 as [He2|He2]; [apply He2; congruence|apply He2; congruence]. }
    pose proof (pack_frame None (clean db) colname' col' u req D He1 Hkey) as Fr. unfold handle_pack in E. unfold db_of in Fr. rewrite E in Fr. cbn [fst] in Fr.
    destruct Fr as [Fr1 Fr2].
    apply (jinv_frame (clean db) cls fly (clean db') HJ); [apply Hw'| |exact Fr1|exact Fr2].
    pose proof (handle_pack_client (clean db) colname' col' u req Hinv Hci Hh) as HC. unfold handle_pack in HC. rewrite E in HC. exact HC.
  Qed.

  (* ---------- histories of D's system among other traffic ---------- *)
  Inductive oev :=
  | OMine (f : option fpoint) (ev : jev)                                        (* an event of D's system, a command failing or not *)
  | OOther (f : option fpoint) (colname' : str) (col' : N) (u : str) (req : ppp). (* a pack for another datatype *)

  Definition ostep (st : lsys) (e : oev) : lsys :=
    match e with
    | OMine f ev => gstep colname col D key ty f st ev
    | OOther f colname' col' u req => other_step f st colname' col' u req
    end.
  Definition orun (st : lsys) (es : list oev) : lsys := fold_left ostep es st.
  Definition polite (e : oev) : Prop :=
    match e with OMine _ _ => True | OOther _ _ col' u req => honest_pack u req /\ elsewhere col' req end.

  Theorem orun_inv es : forall st, XInv col D key ty st -> Forall polite es -> XInv col D key ty (orun st es).
  Proof.
    induction es as [|e es IH]; intros st H Hp; cbn [orun fold_left]; [exact H|]. inversion Hp as [|? ? He Hp']; subst.
    apply IH; [|exact Hp']. destruct e as [f ev|f colname' col' u req]; cbn [ostep].
    - apply xstep_inv. exact H.
    - destruct He as [Hh He]. apply other_step_inv; assumption.
  Qed.

  (* the whole life of a datatype among any other traffic: as [datatype_life] (ProtocolCreate.v), the events of D's system
     interleaved in any way with packs of any clients for other datatypes of this and other collections, commands failing
     anywhere *)
  Theorem datatype_life_among_others rs u o1 es :
    Forall honest rs ->
    let db := fold_left serve rs sdb_init in
    find_dt db D = None -> find_dt_by_key db col key = None -> o_cuid (op_id o1) = u -> oseq' o1 = 1 ->
    Forall polite es ->
    let '(db', resp, pubs) := handle_pack db colname col u (mkPpp key D bit_create (mkCp 0 1) ty [o1] None) in
    p_err resp = None /\
    let st := orun (mkLs (mkPs db' [mkPc u 1 1 [] []]) []) es in
    let dbc := clean (dbof st) in
    LogInv dbc /\
    (forall c, In c (ps_cl (l_base st)) ->
       pc_exec c = foreign (pc_cuid c) (firstn (N.to_nat (pc_s c)) (logops D dbc))) /\
    (forall d w, In d (s_dts dbc) -> seqs_of (s_ops dbc) (dd_duid d) w = nseq 1 (N.to_nat (ack d w))) /\
    (forall d0, In d0 (s_dts dbc) -> dd_duid d0 = D -> forall c, In c (ps_cl (l_base st)) -> pc_s c = dd_end d0 ->
       pc_exec c = foreign (pc_cuid c) (logops D dbc)).
  Proof.
    intros Hh db Hf Hk Hu Hs Hp.
    pose proof (creation_establishes_invariant colname col D key ty db u o1 (log_invariant rs) (client_order rs Hh) Hf Hk Hu Hs) as C.
    cbv zeta in C. destruct (handle_pack db colname col u _) as [[db' resp] pubs]. destruct C as [C1 C2]. split; [exact C1|].
    pose proof (XInv_of_JInv col D key ty _ C2) as X0.
    pose proof (orun_inv es _ X0 Hp) as X.
    destruct (faults_exactly_once colname col D key ty _ [] X) as [_ [A [B C]]]. cbv zeta in A, B, C. cbn [xrun fold_left] in A, B, C.
    cbv zeta. split; [exact A|]. split; [exact B|]. split; [exact C|].
    exact (faults_quiescent colname col D key ty _ [] X).
  Qed.
End Other.
