(* C03: without concurrency each datatype behaves as its plain data structure, and invalid calls
   are clean no-ops.  (List: Proofs/ListFacts.v.) *)
From Coq Require Import List NArith ZArith Bool Lia.
From Orda.Model Require Import Base Time Ops Counter Map Datatype.
From Orda.Proofs Require Import TimeFacts OrderFacts MapFacts MapConv DatatypeFacts.
Import ListNotations.

(* ---------- generic: refused and failing calls change nothing ---------- *)
Section Generic.
  Variable St call ret J : Type.
  Variable k_validate : St -> call -> bool.
  Variable k_local : St -> call -> opid -> lres St ret.

  (* a call with invalid arguments: error, and the datatype — snapshot, operation id, pending
     operations, checkpoint, rollback point — is exactly what it was *)
  Theorem invalid_call_is_noop (d : @dt St call J) c :
    k_validate (d_snap d) c = false ->
    local_call St call ret J k_validate k_local d c = (d, Failed).
  Proof. intros H. unfold local_call, local_step. rewrite H. reflexivity. Qed.

  (* a call the kernel rejects (e.g. removing an absent key): the consumed id is given back *)
  Theorem failing_call_is_noop (d : @dt St call J) c :
    wf_id (d_oid d) -> k_validate (d_snap d) c = true ->
    k_local (d_snap d) c (opid_next (d_oid d)) = LErr ->
    local_call St call ret J k_validate k_local d c = (d, Failed).
  Proof.
    intros Hwf Hv He. unfold local_call, local_step. rewrite Hv, He.
    rewrite (rollback_next _ Hwf). destruct d; reflexivity.
  Qed.
End Generic.

(* ---------- counter = a 32-bit integer ---------- *)
Theorem counter_is_int32 s d i :
  c_exec_local s (CInc d) i = Some (wrap32 (s + d), OInc i d, VNum (wrap32 (s + d))).
Proof. reflexivity. Qed.

(* ---------- map = a plain string-keyed map ---------- *)
(* every stored timestamp was issued by this replica earlier: same era, smaller or equal lamport *)
Definition m_dominated (s : mstate) (i : opid) : Prop :=
  o_era i < two31 /\ o_lam i + 1 < two63 /\
  forall k e, mget s k = Some e -> era (m_t e) = o_era i /\ lam (m_t e) <= o_lam i.

Lemma dominated_lt s i k e : m_dominated s i -> mget s k = Some e -> ts_lt (m_t e) (opid_ts (opid_next i)) = true.
Proof.
  intros [He [Hl H]] Hg. destruct (H k e Hg) as [E1 E2].
  unfold ts_lt. rewrite ts_compare_is_plain.
  - unfold ts_compare_plain. cbn [opid_ts opid_next era lam o_era o_lam]. rewrite E1, N.compare_refl.
    rewrite N.mod_small by (unfold two63, two64 in *; lia).
    rewrite (proj2 (N.compare_lt_iff (lam (m_t e)) (o_lam i + 1))) by lia. reflexivity.
  - split; [rewrite E1; exact He|unfold two63 in *; lia].
  - split; cbn; [exact He|]. rewrite N.mod_small by (unfold two63, two64 in *; lia). exact Hl.
Qed.

Definition get_after (k : str) (v : option val) (s : mstate) (k' : str) : option val :=
  if str_eqb k' k then v else m_get s k'.

(* Put: the key now reads v, every other key is untouched, the old value (if any) is returned *)
Theorem map_put_is_plain s k v i :
  m_dominated s i ->
  exists s', m_exec_local s (MPut k v) (opid_next i) = Some (s', OPut (opid_next i) k v, m_get s k) /\
             forall k', m_get s' k' = get_after k (Some v) s k'.
Proof.
  intros Hd. unfold m_exec_local, m_put, m_get. destruct (mget s k) as [old|] eqn:E.
  - rewrite (dominated_lt s i k old Hd E). eexists. split; [reflexivity|].
    intros k'. unfold get_after, mget, m_get. cbn [m_map]. rewrite alookup_aset. destruct (str_eqb k' k); reflexivity.
  - eexists. split; [reflexivity|].
    intros k'. unfold get_after, mget, m_get. cbn [m_map]. rewrite alookup_aset. destruct (str_eqb k' k); reflexivity.
Qed.

(* Remove of a live key: the key now reads nothing, others untouched, the old value is returned;
   Remove of an absent or removed key: an error, nothing changes *)
Theorem map_remove_is_plain s k i :
  m_dominated s i ->
  match m_get s k with
  | Some v => exists s', m_exec_local s (MRemove k) (opid_next i) = Some (s', ORemove (opid_next i) k, Some v) /\
                         forall k', m_get s' k' = get_after k None s k'
  | None => m_exec_local s (MRemove k) (opid_next i) = None
  end.
Proof.
  intros Hd. unfold m_exec_local, m_remove_local, m_get. destruct (mget s k) as [[[v|] t0]|] eqn:E; cbn [m_v]; try reflexivity.
  pose proof (dominated_lt s i k _ Hd E) as Hlt. cbn [m_t] in Hlt. rewrite Hlt.
  eexists. split; [reflexivity|].
  intros k'. unfold get_after, mget, m_get. cbn [m_map]. rewrite alookup_aset. destruct (str_eqb k' k); reflexivity.
Qed.

(* the domination invariant is kept by local calls, so the two theorems apply along any sequential run *)
Lemma m_dominated_next s i c s' o r :
  m_dominated s i -> o_lam i + 2 < two63 ->
  m_exec_local s c (opid_next i) = Some (s', o, r) -> m_dominated s' (opid_next i).
Proof.
  intros [He [Hl H]] Hl2 E.
  assert (Hn : o_lam (opid_next i) = o_lam i + 1) by (cbn; apply N.mod_small; unfold two63, two64 in *; lia).
  split; [exact He|]. split; [rewrite Hn; lia|]. rewrite Hn.
  assert (Hset : forall k0 e0 m, (forall k e, alookup str_eqb k m = Some e -> era (m_t e) = o_era i /\ lam (m_t e) <= o_lam i) ->
            era (m_t e0) = o_era i /\ lam (m_t e0) <= o_lam i + 1 ->
            forall k e, alookup str_eqb k (aset str_eqb k0 e0 m) = Some e -> era (m_t e) = o_era (opid_next i) /\ lam (m_t e) <= o_lam i + 1).
  { intros k0 e0 m Hm H0 k e. rewrite alookup_aset. destruct (str_eqb k k0).
    - intros [= <-]. exact H0.
    - intros Hk. destruct (Hm k e Hk). cbn. split; [assumption|lia]. }
  assert (Hold : forall k e, mget s k = Some e -> era (m_t e) = o_era (opid_next i) /\ lam (m_t e) <= o_lam i + 1).
  { intros k e Hk. destruct (H k e Hk). cbn. split; [assumption|lia]. }
  destruct c as [k v|k]; unfold m_exec_local in E.
  - unfold m_put in E. destruct (mget s k) as [old|] eqn:Eo.
    + destruct (ts_lt (m_t old) (opid_ts (opid_next i))); injection E as <- _ _; [|exact Hold].
      unfold mget; cbn [m_map]. apply Hset; [exact H|]. cbn [m_t opid_ts era lam opid_next o_era o_lam].
      split; [reflexivity|]. rewrite N.mod_small by (unfold two63, two64 in *; lia). lia.
    + injection E as <- _ _. unfold mget; cbn [m_map]. apply Hset; [exact H|]. cbn [m_t opid_ts era lam opid_next o_era o_lam].
      split; [reflexivity|]. rewrite N.mod_small by (unfold two63, two64 in *; lia). lia.
  - unfold m_remove_local in E. destruct (mget s k) as [[[v|] t0]|] eqn:Eo; try discriminate.
    destruct (ts_lt t0 (opid_ts (opid_next i))); [|discriminate]. injection E as <- _ _.
    unfold mget; cbn [m_map]. apply Hset; [exact H|]. cbn [m_t opid_ts era lam opid_next o_era o_lam].
    split; [reflexivity|]. rewrite N.mod_small by (unfold two63, two64 in *; lia). lia.
Qed.

Lemma m_dominated_init c : m_dominated m_init (opid_next (opid_new c)).
Proof. split; [cbn; unfold two31; lia|]. split; [cbn; unfold two63; lia|]. intros k e H. discriminate. Qed.
