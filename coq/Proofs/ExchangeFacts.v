(* C05 / C07: one fault-free exchange of a subscribed client, end to end — what the server answers to the client's
   request and what the client then executes: exactly the log entries after the client's checkpoint that are not its
   own, in log order, each once; its checkpoint ends at the new end of the log. *)
From Coq Require Import List NArith ZArith Bool Lia.
From Orda.Model Require Import Base Time Ops Server Wire.
From Orda.Proofs Require Import TimeFacts MapFacts ServerFacts ClientOrder WireFacts.
Import ListNotations.
Open Scope N_scope.

Lemma find_dt_of_in db d : NoDup (map dd_duid (s_dts db)) -> In d (s_dts db) -> find_dt db (dd_duid d) = Some d.
Proof.
  unfold find_dt. intros Hnd Hin. induction (s_dts db) as [|x l IH]; [destruct Hin|]. cbn [find map] in *.
  inversion Hnd as [|? ? Hn Hd]; subst. destruct Hin as [->|Hin].
  - rewrite str_eqb_refl. reflexivity.
  - destruct (str_eqb (dd_duid x) (dd_duid d)) eqn:E; [|apply IH; assumption].
    apply str_eqb_eq in E. exfalso. apply Hn. rewrite E. apply in_map. exact Hin.
Qed.

(* the answer to a plain push-pull (no option bit) naming a datatype of the client's collection *)
Lemma normal_pack db colname col cuid req d0 :
  LogInv db -> In d0 (s_dts db) -> dd_col d0 = col -> p_duid req = dd_duid d0 -> p_opt req = 0 ->
  let D := dd_duid d0 in let e := dd_end d0 in
  let cp0 := match alookup str_eqb cuid (dd_rw d0) with Some c => c | None => mkCp 0 0 end in
  match push_ops D col (mkCp e (cseq cp0)) (p_ops req) [] with
  | None => fst (fst (handle_pack db colname col cuid req)) = db /\ p_err (snd (fst (handle_pack db colname col cuid req))) <> None
  | Some (cp1, newdocs) =>
      let pulled := get_ops db D (sseq (p_cp req) + 1) in
      handle_pack db colname col cuid req =
      (mkSdb (s_cols db) (s_colctr db) (s_clients db)
             (upsert_dt (s_dts db) (set_end (set_client d0 false cuid (mkCp (e + N.of_nat (length newdocs)) (cseq cp1))) (e + N.of_nat (length newdocs))))
             (s_ops db ++ newdocs),
       mkPpp (p_key req) D 0 (mkCp (e + N.of_nat (length newdocs)) (cseq cp1)) (p_type req) (map od_op pulled) None,
       match newdocs with [] => [] | _ => [mkPub colname (dd_key d0) cuid D (e + N.of_nat (length newdocs))] end)
  end.
Proof.
  intros Hinv Hin Hcol Hduid Hopt. cbv zeta. set (D := dd_duid d0) in *. set (e := dd_end d0).
  set (cp0 := match alookup str_eqb cuid (dd_rw d0) with Some c => c | None => mkCp 0 0 end).
  pose proof Hinv as [Hnd Hdt Horph Hkey].
  unfold handle_pack, handle_pack_f; fold finish_pack. rewrite Hopt.
  change (has 0 bit_readonly) with false. cbn [andb].
  unfold evaluate. rewrite Hopt. change (has 0 bit_create) with false. change (has 0 bit_subscribe) with false. cbn [orb].
  rewrite Hduid. change (find_dt db D) with (find_dt db (dd_duid d0)). rewrite (find_dt_of_in db d0 Hnd Hin). unfold decide. rewrite Hopt.
  change (has 0 bit_create) with false. change (has 0 bit_subscribe) with false. cbn [andb]. rewrite Hcol, N.eqb_refl.
  rewrite finish_pack_plain. unfold finish_plain. cbn [clients_of]. fold cp0. fold e. rewrite ?Hduid.
  destruct (push_ops D col (mkCp e (cseq cp0)) (p_ops req) []) as [[cp1 newdocs]|] eqn:Ep; [|cbn; split; [reflexivity|discriminate]].
  assert (Hs : map od_sseq (ops_of (s_ops db) D) = nseq 1 (N.to_nat e)) by (apply (di_sseq _ _ (Hdt d0 Hin))).
  pose proof (push_ops_spec _ _ _ _ _ _ _ Ep) as [new0 [H1 [H2 [H3 [_ [H5 _]]]]]]. cbn [app sseq] in *. subst new0.
  assert (Hdup : Forall (fun o => od_duid o = D) newdocs) by (eapply Forall_impl; [|exact H5]; intros o [H _]; exact H).
  rewrite ?Hopt. change (has 0 bit_snapshot) with false. cbv iota.
  rewrite (pulled_within db D e (sseq (p_cp req) + 1) Hs), (purge_noop (s_ops db) D e Hs).
  replace (match newdocs with [] => s_ops db | _ :: _ => s_ops db end) with (s_ops db) by (destruct newdocs; reflexivity).
  rewrite (insert_ops_fresh D newdocs (s_ops db) e Hs Hdup H2).
  assert (Ecp : match rev (get_ops db D (sseq (p_cp req) + 1)) with
                | [] => cp1
                | lst :: _ => mkCp (od_sseq lst + N.of_nat (length newdocs)) (cseq cp1)
                end = mkCp (e + N.of_nat (length newdocs)) (cseq cp1)).
  { pose proof (get_ops_last db D e (sseq (p_cp req) + 1) Hs ltac:(lia)) as Hl.
    destruct (rev (get_ops db D (sseq (p_cp req) + 1))) as [|lst r]; [|rewrite Hl; reflexivity].
    destruct cp1 as [s1 c1]. cbn [sseq cseq] in *. rewrite H3. reflexivity. }
  rewrite Ecp. cbn [sseq]. destruct newdocs; reflexivity.
Qed.

(* ---------- the client's arithmetic on un-wrapped counters ---------- *)
Lemma u64sub_ge a b : b <= a -> a < two64 -> u64sub a b = a - b.
Proof.
  intros H1 H2. unfold u64sub. replace (a + two64 - b) with ((a - b) + 1 * two64) by lia.
  rewrite N.mod_add by (unfold two64; lia). apply N.mod_small. lia.
Qed.
Lemma wrap64_small z : (0 <= z < 9223372036854775808)%Z -> wrap64 z = z.
Proof.
  intros H. unfold wrap64. rewrite Z.mod_small by lia. destruct (Z.ltb_spec z 9223372036854775808); lia.
Qed.

Lemma filter_nseq_length from : forall n start, start <= from -> from <= start + N.of_nat n ->
  length (filter (fun s => from <=? s) (nseq start n)) = N.to_nat (start + N.of_nat n - from).
Proof.
  induction n as [|n IH]; intros start H1 H2; cbn [nseq filter length]; [lia|].
  destruct (N.leb_spec from start).
  - assert (from = start) by lia. subst. cbn [length]. 
    assert (G : forall m st, start <= st -> length (filter (fun s => start <=? s) (nseq st m)) = m).
    { clear. induction m as [|m IHm]; intros st H; cbn [nseq filter length]; [reflexivity|].
      destruct (N.leb_spec start st); [|lia]. cbn [length]. rewrite IHm by lia. reflexivity. }
    rewrite G by lia. lia.
  - rewrite IH by lia. lia.
Qed.

Lemma filter_split_length {A} (f : A -> bool) l :
  length (filter (fun x => negb (f x)) l) = (length l - length (filter f l))%nat /\ (length (filter f l) <= length l)%nat.
Proof.
  induction l as [|x l [IH1 IH2]]; cbn [filter length]; [auto|]. destruct (f x); cbn [negb length]; lia.
Qed.

(* C05 / C07: one fault-free exchange of a subscribed client whose request is accepted.
   db: a reachable store; d0: the datatype; (s, cc): the client's checkpoint; the request carries that s and the
   client's pending operations.  Premises relating client and server: the client has not seen beyond the log (s <= End);
   the server has acknowledged at least what the client knows (cc <= its recorded cseq), and the own operations the
   server stored but the client does not know of lie after s (they were stored by exchanges whose answers were lost).
   Then: the answer carries the log entries s+1..End in order; the client executes exactly those of them that are not
   its own, in that order; and the answer's checkpoint is the new end of the log and the new acknowledged number. *)
Theorem normal_exchange_delivers db colname col cuid req d0 s cc cp1 newdocs :
  LogInv db -> In d0 (s_dts db) -> dd_col d0 = col -> p_duid req = dd_duid d0 -> p_opt req = 0 ->
  sseq (p_cp req) = s -> honest_pack cuid req ->
  let D := dd_duid d0 in let e := dd_end d0 in
  let cp0 := match alookup str_eqb cuid (dd_rw d0) with Some c => c | None => mkCp 0 0 end in
  let log := map od_op (get_ops db D (s + 1)) in
  let own := fun o => str_eqb (o_cuid (op_id o)) cuid in
  s <= e -> cc <= cseq cp0 ->
  N.of_nat (length (filter own log)) = cseq cp0 - cc ->
  e + N.of_nat (length (p_ops req)) < 4611686018427387904 -> cseq cp0 + N.of_nat (length (p_ops req)) < 4611686018427387904 ->
  push_ops D col (mkCp e (cseq cp0)) (p_ops req) [] = Some (cp1, newdocs) ->
  let resp := snd (fst (handle_pack db colname col cuid req)) in
  p_err resp = None /\
  p_cp resp = mkCp (e + N.of_nat (length newdocs)) (cseq cp0 + N.of_nat (length newdocs)) /\
  map od_sseq (get_ops db D (s + 1)) = filter (fun x => s + 1 <=? x) (nseq 1 (N.to_nat e)) /\
  incoming cuid false (mkCp s cc) resp = Some (filter (fun o => negb (own o)) log).
Proof.
  intros Hinv Hin Hcol Hduid Hopt Hs Hh D e cp0 log own H1 H2 Hown B1 B2 Ep resp. subst own. cbv beta in *.
  pose proof (normal_pack db colname col cuid req d0 Hinv Hin Hcol Hduid Hopt) as NP. cbv zeta in NP.
  fold D e cp0 in NP. rewrite Ep in NP. subst resp. rewrite NP. cbn [fst snd p_err p_cp p_ops]. rewrite Hs.
  destruct (push_authored D col cuid (p_ops req) _ _ _ _ Ep Hh) as [new [K1 [K2 [K3 K4]]]]. cbn [app cseq] in *. subst new.
  pose proof (push_ops_spec _ _ _ _ _ _ _ Ep) as [new0 [J1 [_ [_ [_ [_ J6]]]]]]. cbn [app] in J1. subst new0.
  pose proof Hinv as [Hnd Hdt Horph Hkey].
  assert (Hlog : map od_sseq (ops_of (s_ops db) D) = nseq 1 (N.to_nat e)) by (apply (di_sseq _ _ (Hdt d0 Hin))).
  destruct (pulled_is_log_suffix db D e (s + 1) Hlog) as [Hseq _].
  split; [reflexivity|]. split; [rewrite K3; reflexivity|]. split; [exact Hseq|].
  fold log.
  assert (Llog : length log = N.to_nat (e - s)).
  { unfold log. rewrite map_length, <- (map_length od_sseq), Hseq, filter_nseq_length by lia. lia. }
  destruct (filter_split_length (fun o => str_eqb (o_cuid (op_id o)) cuid) log) as [Lo Lle].
  apply incoming_takes_all. cbn [p_ops p_cp sseq cseq]. rewrite Lo, Llog.
  assert (Lown : length (filter (fun o => str_eqb (o_cuid (op_id o)) cuid) log) = N.to_nat (cseq cp0 - cc)) by lia.
  rewrite Lown in *. rewrite K3.
  unfold two64 in *.
  rewrite (u64sub_ge (e + N.of_nat (length newdocs)) s) by (unfold two64; lia).
  rewrite (u64sub_ge (cseq cp0 + N.of_nat (length newdocs)) cc) by (unfold two64; lia).
  rewrite u64sub_ge by (unfold two64; lia).
  rewrite wrap64_small by lia. lia.
Qed.

(* ---------- ... and the client's state after applying that answer ---------- *)
From Orda.Model Require Import Datatype.
Section ClientSide.
  Variable St call J : Type.
  Variable k_init : St.
  Variable k_remote : St -> op -> St.
  Variable k_export : St -> J.
  Notation wdty := (@wdt St call J).

  (* the subscribed client whose exchange [normal_exchange_delivers] describes ends with the answer's checkpoint — the
     new end of the log and the newly acknowledged sequence number — after handing exactly the foreign log entries
     s+1..End, in log order, to ReceiveRemoteModelOperations *)
  Theorem normal_exchange_client (w : wdty) resp s cc e a k ops :
    w_state w = SubscribedSt -> d_cp (w_d w) = mkCp s cc ->
    p_opt resp = 0 -> p_cp resp = mkCp (e + a) (k + a) -> s <= e -> cc <= k ->
    incoming (o_cuid (d_oid (w_d w))) false (mkCp s cc) resp = Some ops ->
    apply_pack St call J k_init k_remote k_export w resp =
    match receive_ops St call J k_remote (set_checkpoint St call J (w_d w) (mkCp (e + a) (k + a))) ops with
    | ROk _ _ _ d3 => AOk _ _ _ (mkWdt d3 SubscribedSt (w_duid w) (w_key w)) (mkApplied None false false)
    | RError _ _ _ d3 => AOk _ _ _ (mkWdt d3 SubscribedSt (w_duid w) (w_key w)) (mkApplied None false true)
    | _ => APanic _ _ _
    end.
  Proof.
    intros Hst Hcp Hopt Hrcp H1 H2 Hin. unfold apply_pack. rewrite Hopt.
    change (has 0 bit_error) with false. change (has 0 bit_subscribe) with false. cbv iota. cbn [andb orb negb].
    rewrite Hst. cbn [dstate_eqb andb negb]. rewrite Hcp, Hin, Hrcp. cbn [sseq cseq].
    rewrite (N.max_r s (e + a)) by lia. rewrite (N.max_r cc (k + a)) by lia. reflexivity.
  Qed.
End ClientSide.
