(* C01 / C04, List: replicas that have executed the same operations hold the same list, whatever the order of
   execution — every order in which each operation finds the elements it addresses (what causal delivery provides).
   Two halves: where concurrent inserts are placed (the RGA rule: after the target, behind the siblings with greater
   timestamps) does not depend on their order; and the content of an element is a last-writer-wins register
   (ListElem.v).  Everything is about the model functions the correspondence check runs against the Go code. *)
From Coq Require Import List NArith ZArith Bool Lia Permutation.
From Orda.Model Require Import Base Time Ops List.
From Orda.Proofs Require Import TimeFacts OrderFacts Permute ListFacts ListElem.
Import ListNotations.
Open Scope N_scope.

Definition kx (x : node) : tkey := key_of (n_o x).

(* ---------- the placement rule on keys: behind the leading nodes with a greater key ---------- *)
Fixpoint blk (l : list node) (k : tkey) (N : list node) : list node :=
  match l with
  | x :: xs => if klt k (kx x) then x :: blk xs k N else N ++ l
  | [] => N
  end.

Lemma blk_nil l k : blk l k [] = l.
Proof. induction l as [|x xs IH]; cbn; [reflexivity|]. destruct (klt k (kx x)); [f_equal; exact IH|reflexivity]. Qed.

Lemma blk_skip A B k N : Forall (fun x => klt k (kx x) = true) A -> blk (A ++ B) k N = A ++ blk B k N.
Proof. induction 1 as [|x A Hx _ IH]; cbn; [reflexivity|]. rewrite Hx, IH. reflexivity. Qed.

Definition stops (T : list node) (k : tkey) : Prop := match T with [] => True | y :: _ => klt k (kx y) = false end.
Lemma blk_stop T k N : stops T k -> blk T k N = N ++ T.
Proof. destruct T as [|y T]; cbn; intros H; [symmetry; apply app_nil_r|]. rewrite H. reflexivity. Qed.

Lemma klt_cases a b : a <> b -> (klt a b = true /\ klt b a = false) \/ (klt b a = true /\ klt a b = false).
Proof.
  intros Hne. destruct (klt a b) eqn:E1.
  - left. split; [reflexivity|apply klt_asym; exact E1].
  - right. split; [|reflexivity]. destruct (klt b a) eqn:E2; [reflexivity|]. exfalso. apply Hne. apply klt_total; assumption.
Qed.

Lemma blk_two N1 N2 k1 k2 T :
  k1 <> k2 -> Forall (fun n => kx n = k1) N1 -> Forall (fun n => kx n = k2) N2 -> stops T k1 -> stops T k2 ->
  blk (N1 ++ T) k2 N2 = blk (N2 ++ T) k1 N1.
Proof.
  intros Hne H1 H2 S1 S2. destruct (klt_cases k1 k2 Hne) as [[L1 L2]|[L1 L2]].
  - (* k1 < k2 *)
    rewrite (blk_skip N2 T k1 N1) by (eapply Forall_impl; [|exact H2]; cbn; intros n ->; exact L1).
    rewrite (blk_stop T k1 N1 S1). destruct N1 as [|n N1']; [cbn [app]; apply blk_stop; exact S2|].
    apply blk_stop. cbn. apply Forall_inv in H1. rewrite H1. exact L2.
  - rewrite (blk_skip N1 T k2 N2) by (eapply Forall_impl; [|exact H1]; cbn; intros n ->; exact L1).
    rewrite (blk_stop T k2 N2 S2). destruct N2 as [|n N2']; [cbn [app]; symmetry; apply blk_stop; exact S1|].
    symmetry. apply blk_stop. cbn. apply Forall_inv in H2. rewrite H2. exact L2.
Qed.

Lemma blk_comm N1 N2 k1 k2 :
  k1 <> k2 -> Forall (fun n => kx n = k1) N1 -> Forall (fun n => kx n = k2) N2 ->
  forall l, blk (blk l k1 N1) k2 N2 = blk (blk l k2 N2) k1 N1.
Proof.
  intros Hne H1 H2. induction l as [|x xs IH].
  - cbn [blk]. pose proof (blk_two N1 N2 k1 k2 [] Hne H1 H2 I I) as B. rewrite !app_nil_r in B. exact B.
  - cbn [blk]. destruct (klt k1 (kx x)) eqn:E1, (klt k2 (kx x)) eqn:E2.
    + cbn [blk]. rewrite E1, E2. f_equal. exact IH.
    + (* k1 < x <= k2 *)
      cbn [blk]. rewrite E2.
      assert (L : klt k1 k2 = true).
      { destruct (klt_cases k1 k2 Hne) as [[L _]|[L _]]; [exact L|]. rewrite (klt_trans _ _ _ L E1) in E2. discriminate. }
      rewrite (blk_skip N2 (x :: xs) k1 N1) by (eapply Forall_impl; [|exact H2]; cbn; intros n ->; exact L).
      cbn [blk]. rewrite E1. reflexivity.
    + cbn [blk]. rewrite E1.
      assert (L : klt k2 k1 = true).
      { destruct (klt_cases k1 k2 Hne) as [[L _]|[L _]]; [|exact L]. rewrite (klt_trans _ _ _ L E2) in E1. discriminate. }
      rewrite (blk_skip N1 (x :: xs) k2 N2) by (eapply Forall_impl; [|exact H1]; cbn; intros n ->; exact L).
      cbn [blk]. rewrite E2. reflexivity.
    + apply blk_two; auto.
Qed.

Lemma blk_perm l k N : Permutation (blk l k N) (N ++ l).
Proof.
  induction l as [|x xs IH]; cbn; [rewrite app_nil_r; reflexivity|]. destruct (klt k (kx x)); [|reflexivity].
  rewrite IH. apply Permutation_middle.
Qed.

(* ---------- the target: the placement applies to what follows the target node ---------- *)
Fixpoint aft (l : list node) (tg : ts) (F : list node -> list node) : option (list node) :=
  match l with
  | [] => None
  | x :: xs => if ts_eqb (n_o x) tg then Some (x :: F xs) else option_map (cons x) (aft xs tg F)
  end.
Definition obind {A B} (o : option A) (f : A -> option B) : option B := match o with Some x => f x | None => None end.

Lemma ts_eqb_eq a b : ts_eqb a b = true <-> a = b.
Proof.
  unfold ts_eqb. destruct a as [e1 l1 c1 d1], b as [e2 l2 c2 d2]; cbn. rewrite !andb_true_iff, !N.eqb_eq. split.
  - intros [[[-> ->] Hc] ->]. apply str_eqb_eq in Hc. subst. reflexivity.
  - intros [= -> -> -> ->]. repeat split; try reflexivity. apply str_eqb_refl.
Qed.
Lemma ts_eqb_refl a : ts_eqb a a = true.
Proof. apply ts_eqb_eq. reflexivity. Qed.
Lemma ts_eqb_neq a b : ts_eqb a b = false <-> a <> b.
Proof. split; [intros H E; subst; rewrite ts_eqb_refl in H; discriminate|]. intros H. destruct (ts_eqb a b) eqn:E; [apply ts_eqb_eq in E; contradiction|reflexivity]. Qed.

Lemma aft_notin l tg F : ~ In tg (ids l) -> aft l tg F = None.
Proof.
  induction l as [|x xs IH]; cbn; intros H; [reflexivity|].
  destruct (ts_eqb (n_o x) tg) eqn:E; [apply ts_eqb_eq in E; exfalso; apply H; left; exact E|].
  rewrite IH; [reflexivity|]. intros Hin. apply H. right. exact Hin.
Qed.
Lemma aft_in l tg F : In tg (ids l) -> exists r, aft l tg F = Some r.
Proof.
  induction l as [|x xs IH]; cbn; intros H; [destruct H|].
  destruct (ts_eqb (n_o x) tg) eqn:E; [eexists; reflexivity|]. destruct H as [H|H]; [apply ts_eqb_neq in E; contradiction|].
  destruct (IH H) as [r ->]. eexists; reflexivity.
Qed.
Lemma aft_app_notin A B tg F : ~ In tg (ids A) -> aft (A ++ B) tg F = option_map (app A) (aft B tg F).
Proof.
  induction A as [|x A IH]; cbn; intros H; [destruct (aft B tg F); reflexivity|].
  destruct (ts_eqb (n_o x) tg) eqn:E; [apply ts_eqb_eq in E; exfalso; apply H; left; exact E|].
  rewrite IH by (intros Hin; apply H; right; exact Hin). destruct (aft B tg F); reflexivity.
Qed.
Lemma aft_head x xs tg F : exists r, aft (x :: xs) tg F = None \/ aft (x :: xs) tg F = Some (x :: r).
Proof. cbn. destruct (ts_eqb (n_o x) tg); [eexists; right; reflexivity|]. destruct (aft xs tg F); [eexists; right; reflexivity|exists []; left; reflexivity]. Qed.

(* placing a block in front commutes with working behind a target further on *)
Lemma blk_aft k1 N1 tg F2 :
  ~ In tg (ids N1) -> (forall r, F2 (blk r k1 N1) = blk (F2 r) k1 N1) ->
  forall R, aft (blk R k1 N1) tg F2 = option_map (fun r => blk r k1 N1) (aft R tg F2).
Proof.
  intros Hn HC. induction R as [|x xs IH].
  - cbn [blk aft option_map]. apply aft_notin. exact Hn.
  - cbn [blk]. destruct (klt k1 (kx x)) eqn:E1.
    + cbn [aft]. destruct (ts_eqb (n_o x) tg).
      * cbn [option_map blk]. rewrite E1, HC. reflexivity.
      * rewrite IH. destruct (aft xs tg F2); cbn [option_map blk]; [rewrite E1|]; reflexivity.
    + rewrite (aft_app_notin N1 (x :: xs) tg F2 Hn). destruct (aft_head x xs tg F2) as [r [E|E]]; rewrite E; cbn [option_map]; [reflexivity|].
      cbn [blk]. rewrite E1. reflexivity.
Qed.

Section Place.
  Variables (F1 F2 : list node -> list node) (N1 N2 : list node).
  Hypothesis C : forall r, F1 (F2 r) = F2 (F1 r).
  Hypothesis A1 : forall R tg, ~ In tg (ids N1) -> aft (F1 R) tg F2 = option_map F1 (aft R tg F2).
  Hypothesis A2 : forall R tg, ~ In tg (ids N2) -> aft (F2 R) tg F1 = option_map F2 (aft R tg F1).

  Lemma aft_comm tg1 tg2 : ~ In tg1 (ids N2) -> ~ In tg2 (ids N1) ->
    forall l, obind (aft l tg1 F1) (fun l1 => aft l1 tg2 F2) = obind (aft l tg2 F2) (fun l2 => aft l2 tg1 F1).
  Proof.
    intros H1 H2. induction l as [|x xs IH]; [reflexivity|]. cbn [aft].
    destruct (ts_eqb (n_o x) tg1) eqn:E1, (ts_eqb (n_o x) tg2) eqn:E2; cbn [obind aft].
    - rewrite E1, E2, C. reflexivity.
    - rewrite E2, (A1 xs tg2 H2). destruct (aft xs tg2 F2); cbn [option_map obind aft]; [rewrite E1|]; reflexivity.
    - rewrite E1, (A2 xs tg1 H1). destruct (aft xs tg1 F1); cbn [option_map obind aft]; [rewrite E2|]; reflexivity.
    - destruct (aft xs tg1 F1) as [l1|] eqn:B1, (aft xs tg2 F2) as [l2|] eqn:B2; cbn [option_map obind aft] in *; rewrite ?E1, ?E2.
      + rewrite IH. reflexivity.
      + rewrite IH. reflexivity.
      + rewrite <- IH. reflexivity.
      + reflexivity.
  Qed.
End Place.

(* ---------- the model's insert is this placement (timestamps within the comparison's plain range) ---------- *)
Definition bnodes (l : list node) : Prop := Forall (fun x => ts_bounded (n_o x) /\ ts_bounded (n_t x)) l.

Lemma skip_gt_blk t N : ts_bounded t -> forall l, bnodes l -> forall a b, skip_gt l t = (a, b) ->
  blk l (key_of t) N = a ++ N ++ b /\ stops b (key_of t) /\ l = a ++ b.
Proof.
  intros Ht. induction l as [|x xs IH]; intros Hb a b; cbn [skip_gt blk].
  - intros [= <- <-]. rewrite app_nil_r. repeat split.
  - inversion Hb as [|? ? [Hx _] Hb']; subst. unfold kx. rewrite <- (ts_gt_klt (n_o x) t Hx Ht).
    destruct (ts_gt (n_o x) t) eqn:E.
    + destruct (skip_gt xs t) as [a' b'] eqn:Es. intros [= <- <-]. destruct (IH Hb' a' b' eq_refl) as [I1 [I2 I3]].
      rewrite I1. cbn [app]. rewrite <- I3. repeat split. exact I2.
    + intros [= <- <-]. cbn [app]. repeat split. cbn. unfold kx. rewrite <- (ts_gt_klt (n_o x) t Hx Ht). exact E.
Qed.

Lemma ins_many_blk k ns : Forall (fun n => ts_bounded (n_t n) /\ key_of (n_t n) = k) ns ->
  forall l, bnodes l -> ins_many l ns = blk l k ns.
Proof.
  induction 1 as [|n ns [Hn Hk] _ IH]; intros l Hb; cbn [ins_many]; [symmetry; apply blk_nil|].
  destruct (skip_gt l (n_t n)) as [a b] eqn:Es.
  destruct (skip_gt_blk (n_t n) (n :: ns) Hn l Hb a b Es) as [I1 [I2 I3]]. rewrite Hk in I1, I2.
  assert (Hbb : bnodes b) by (rewrite I3 in Hb; apply Forall_app in Hb; apply Hb).
  rewrite (IH b Hbb), (blk_stop b k ns I2), I1. reflexivity.
Qed.

Lemma ins_at_aft ns : forall l tg, ins_at l tg ns = aft l tg (fun r => ins_many r ns).
Proof. induction l as [|x xs IH]; intros tg; cbn; [reflexivity|]. destruct (ts_eqb (n_o x) tg); [reflexivity|]. rewrite IH. reflexivity. Qed.

Lemma key_ts_at t i : key_of (ts_at t i) = key_of t.
Proof. reflexivity. Qed.
Lemma bounded_ts_at t i : ts_bounded t -> ts_bounded (ts_at t i).
Proof. intros H. exact H. Qed.

Lemma mk_nodes_facts t vs : forall i,
  Forall (fun n => n_o n = n_t n /\ key_of (n_t n) = key_of t /\ exists j, n_o n = ts_at t j /\ i <= j) (mk_nodes t i vs).
Proof.
  induction vs as [|v vs IH]; intros i; cbn [mk_nodes]; constructor.
  - cbn. repeat split. exists i. split; [reflexivity|lia].
  - eapply Forall_impl; [|apply (IH (i + 1))]. cbn. intros n [H1 [H2 [j [H3 H4]]]]. repeat split; auto. exists j. split; [exact H3|lia].
Qed.
Lemma mk_nodes_nodup t vs : forall i, NoDup (ids (mk_nodes t i vs)).
Proof.
  induction vs as [|v vs IH]; intros i; cbn [mk_nodes ids map]; constructor; [|apply IH].
  intros Hin. apply in_map_iff in Hin. destruct Hin as [n [Hn Hin]].
  pose proof (mk_nodes_facts t vs (i + 1)) as F. rewrite Forall_forall in F. destruct (F n Hin) as [_ [_ [j [Hj Hle]]]].
  rewrite Hj in Hn. unfold ts_at in Hn. injection Hn as Hd. lia.
Qed.

(* ---------- the datatype on node lists (the size counter follows the nodes) ---------- *)
Definition place (l : list node) (tg : ts) (F : list node -> list node) : option (list node) :=
  if ts_eqb tg oldest_ts then Some (F l) else aft l tg F.
Definition nexec (l : list node) (o : op) : list node :=
  match o with
  | OIns i tg vs => match place l tg (fun r => ins_many r (mk_nodes (opid_ts i) 0 vs)) with Some l' => l' | None => l end
  | ODel i tgs => fst (l_delete_remote_go l 0 tgs (opid_ts i) 0)
  | OUpd i tgs vs => l_update_remote_go l tgs vs (opid_ts i) 0
  | OSnap _ => []
  | _ => l
  end.

Lemma delete_go_fst tgs t : forall l sz sz' i, fst (l_delete_remote_go l sz tgs t i) = fst (l_delete_remote_go l sz' tgs t i).
Proof.
  induction tgs as [|tg tgs IH]; intros l sz sz' i; cbn [l_delete_remote_go]; [reflexivity|].
  destruct (find_node l tg) as [x|]; [|apply IH]. destruct (live x); [apply IH|]. destruct (ts_lt (n_t x) (ts_at t i)); apply IH.
Qed.

Lemma nodes_exec s o : l_nodes (l_exec_remote s o) = nexec (l_nodes s) o.
Proof.
  destruct o as [i|i tag n|i d|i k v|i k|i target vs|i targets|i targets vs|i p k v|i p k|i p target vs|i p targets|i p targets vs]; cbn [l_exec_remote nexec]; try reflexivity.
  - unfold l_insert_remote, place. rewrite ins_at_aft. destruct (ts_eqb target oldest_ts); [reflexivity|].
    destruct (aft _ _ _); reflexivity.
  - unfold l_delete_remote. rewrite (delete_go_fst targets (opid_ts i) (l_nodes s) 0 (l_size s) 0).
    destruct (l_delete_remote_go _ _ _ _ _); reflexivity.
Qed.
Lemma nodes_fold ops : forall s, l_nodes (fold_left l_exec_remote ops s) = fold_left nexec ops (l_nodes s).
Proof. induction ops as [|o ops IH]; intros s; cbn [fold_left]; [reflexivity|]. rewrite IH, nodes_exec. reflexivity. Qed.

(* ---------- updates and deletes: a change of content, node by node, positions and identities untouched ---------- *)
Definition cmap (g : ts -> est -> est) (l : list node) : list node := map (fun x => set_st x (g (n_o x) (node_st x))) l.
Definition at1 (tg : ts) (h : est -> est) : ts -> est -> est := fun id st => if ts_eqb id tg then h st else st.

Lemma set_node_st x : set_st x (node_st x) = x.
Proof. destruct x; reflexivity. Qed.
Lemma node_st_set x st : node_st (set_st x st) = st.
Proof. destruct st; reflexivity. Qed.
Lemma ids_cmap g l : ids (cmap g l) = ids l.
Proof. unfold ids, cmap. rewrite map_map. reflexivity. Qed.
Lemma cmap_cmap g1 g2 l : cmap g2 (cmap g1 l) = cmap (fun id st => g2 id (g1 id st)) l.
Proof.
  unfold cmap. rewrite map_map. apply map_ext. intros x. unfold set_st at 1 2 3, node_st at 2. cbn [n_o n_t n_v].
  destruct (g1 (n_o x) (node_st x)) as [a b]. reflexivity.
Qed.
Lemma cmap_ext g1 g2 l : (forall x, In x l -> g1 (n_o x) (node_st x) = g2 (n_o x) (node_st x)) -> cmap g1 l = cmap g2 l.
Proof. intros H. unfold cmap. apply map_ext_in. intros x Hx. rewrite (H x Hx). reflexivity. Qed.
Lemma cmap_id g l : (forall x, In x l -> g (n_o x) (node_st x) = node_st x) -> cmap g l = l.
Proof. intros H. unfold cmap. rewrite <- (map_id l) at 2. apply map_ext_in. intros x Hx. rewrite (H x Hx). apply set_node_st. Qed.

Lemma find_node_some l tg x : find_node l tg = Some x -> In x l /\ n_o x = tg.
Proof. unfold find_node. intros H. apply find_some in H. destruct H as [H1 H2]. apply ts_eqb_eq in H2. auto. Qed.
Lemma find_node_none l tg : find_node l tg = None -> ~ In tg (ids l).
Proof.
  unfold find_node. intros H Hin. apply in_map_iff in Hin. destruct Hin as [x [E Hx]].
  pose proof (find_none _ _ H x Hx) as C. cbn in C. rewrite E, ts_eqb_refl in C. discriminate.
Qed.

Lemma upd_node_const l tg c : NoDup (ids l) -> forall x, find_node l tg = Some x -> n_o c = tg ->
  upd_node l tg (fun _ => c) = cmap (at1 tg (fun _ => node_st c)) l.
Proof.
  intros Hnd x Hf Hc. unfold find_node in Hf. induction l as [|y l IH]; [discriminate|]. cbn [find upd_node cmap map] in *.
  inversion Hnd as [|? ? Hn Hnd']; subst. unfold at1 at 1. destruct (ts_eqb (n_o y) (n_o c)) eqn:E.
  - apply ts_eqb_eq in E. f_equal; [unfold set_st; rewrite E; destruct c; reflexivity|].
    symmetry. apply cmap_id. intros z Hz. unfold at1. destruct (ts_eqb (n_o z) (n_o c)) eqn:E2; [|reflexivity].
    apply ts_eqb_eq in E2. exfalso. apply Hn. rewrite E, <- E2. apply in_map. exact Hz.
  - rewrite set_node_st. f_equal. apply IH; assumption.
Qed.
Lemma upd_node_at l tg f x : find_node l tg = Some x -> upd_node l tg f = upd_node l tg (fun _ => f x).
Proof.
  unfold find_node. induction l as [|y l IH]; cbn [find upd_node]; [reflexivity|]. destruct (ts_eqb (n_o y) tg); [intros [= ->]; reflexivity|].
  intros H. rewrite (IH H). reflexivity.
Qed.

(* one target: the element register of ListElem.v, on the node with that identity *)
Lemma one_target l tg h : NoDup (ids l) ->
  cmap (at1 tg h) l = match find_node l tg with Some x => upd_node l tg (fun _ => set_st x (h (node_st x))) | None => l end.
Proof.
  intros Hnd. destruct (find_node l tg) as [x|] eqn:Hf.
  - destruct (find_node_some _ _ _ Hf) as [Hin Ho].
    rewrite (upd_node_const l tg (set_st x (h (node_st x))) Hnd x Hf Ho). apply cmap_ext. intros y Hy. unfold at1.
    destruct (ts_eqb (n_o y) tg) eqn:E; [|reflexivity]. apply ts_eqb_eq in E.
    assert (y = x). { clear -Hnd Hin Hy E Ho. induction l as [|z l IH]; [destruct Hin|]. inversion Hnd as [|? ? Hn Hnd']; subst.
      destruct Hin as [->|Hin], Hy as [->|Hy]; auto.
      - exfalso. apply Hn. rewrite <- E. apply in_map. exact Hy.
      - exfalso. apply Hn. rewrite E. apply in_map. exact Hin. }
    subst y. rewrite node_st_set. reflexivity.
  - apply cmap_id. intros y Hy. unfold at1. destruct (ts_eqb (n_o y) tg) eqn:E; [|reflexivity]. apply ts_eqb_eq in E.
    exfalso. apply (find_node_none _ _ Hf). rewrite <- E. apply in_map. exact Hy.
Qed.
Lemma upd_node_self l tg x : find_node l tg = Some x -> upd_node l tg (fun _ => x) = l.
Proof.
  unfold find_node. induction l as [|y l IH]; cbn [find upd_node]; [reflexivity|]. destruct (ts_eqb (n_o y) tg); [intros [= ->]; reflexivity|].
  intros H. rewrite (IH H). reflexivity.
Qed.

Fixpoint dfold (tgs : list ts) (t : ts) (i : N) (id : ts) (st : est) : est :=
  match tgs with
  | [] => st
  | tg :: tgs' => dfold tgs' t (i + 1) id (at1 tg (fun s => eapply s (EDel (ts_at t i))) id st)
  end.
Fixpoint ufold (tgs : list ts) (vs : list val) (t : ts) (i : N) (id : ts) (st : est) : est :=
  match tgs, vs with
  | tg :: tgs', v :: vs' => ufold tgs' vs' t (i + 1) id (at1 tg (fun s => eapply s (EUpd (ts_at t i) v)) id st)
  | _, _ => st
  end.

Lemma delete_cmap tgs t : forall l i sz, NoDup (ids l) -> fst (l_delete_remote_go l sz tgs t i) = cmap (dfold tgs t i) l.
Proof.
  induction tgs as [|tg tgs IH]; intros l i sz Hnd; cbn [l_delete_remote_go dfold]; [symmetry; apply cmap_id; reflexivity|].
  set (h := fun s => eapply s (EDel (ts_at t i))).
  assert (Step : forall sz1, exists sz2, fst (match find_node l tg with
            | Some x => if live x then l_delete_remote_go (upd_node l tg (fun x0 => mkNode (n_o x0) (ts_at t i) None)) (sz1 - 1) tgs t (i + 1)
                        else if ts_lt (n_t x) (ts_at t i) then l_delete_remote_go (upd_node l tg (fun x0 => mkNode (n_o x0) (ts_at t i) None)) sz1 tgs t (i + 1)
                        else l_delete_remote_go l sz1 tgs t (i + 1)
            | None => l_delete_remote_go l sz1 tgs t (i + 1) end) = fst (l_delete_remote_go (cmap (at1 tg h) l) sz2 tgs t (i + 1))).
  { intros sz1. rewrite (one_target l tg h Hnd). destruct (find_node l tg) as [x|] eqn:Hf; [|eexists; reflexivity].
    unfold h, eapply, elive, node_st. cbn [fst snd]. unfold live. destruct (n_v x) eqn:Ev.
    - eexists. rewrite (upd_node_at l tg _ x Hf). reflexivity.
    - destruct (ts_lt (n_t x) (ts_at t i)) eqn:El.
      + eexists. rewrite (upd_node_at l tg _ x Hf). reflexivity.
      + eexists. replace (set_st x (n_t x, None)) with x by (destruct x; cbn in *; subst; reflexivity).
        rewrite (upd_node_self l tg x Hf). reflexivity. }
  destruct (Step sz) as [sz2 E]. rewrite E, (IH _ (i + 1) sz2) by (rewrite ids_cmap; exact Hnd). rewrite cmap_cmap. reflexivity.
Qed.

Lemma update_cmap tgs t : forall vs l i, NoDup (ids l) -> l_update_remote_go l tgs vs t i = cmap (ufold tgs vs t i) l.
Proof.
  induction tgs as [|tg tgs IH]; intros vs l i Hnd; cbn [l_update_remote_go ufold]; [symmetry; apply cmap_id; reflexivity|].
  destruct vs as [|v vs]; [symmetry; apply cmap_id; reflexivity|].
  set (h := fun s => eapply s (EUpd (ts_at t i) v)).
  assert (Step : match find_node l tg with
                 | Some x => if live x && ts_lt (n_t x) (ts_at t i)
                             then l_update_remote_go (upd_node l tg (fun x0 => mkNode (n_o x0) (ts_at t i) (Some v))) tgs vs t (i + 1)
                             else l_update_remote_go l tgs vs t (i + 1)
                 | None => l_update_remote_go l tgs vs t (i + 1) end = l_update_remote_go (cmap (at1 tg h) l) tgs vs t (i + 1)).
  { rewrite (one_target l tg h Hnd). destruct (find_node l tg) as [x|] eqn:Hf; [|reflexivity].
    unfold h, eapply, elive, node_st. cbn [fst snd]. unfold live. destruct (n_v x) eqn:Ev; cbn [andb].
    - destruct (ts_lt (n_t x) (ts_at t i)) eqn:El.
      + rewrite (upd_node_at l tg _ x Hf). reflexivity.
      + replace (set_st x (n_t x, Some v0)) with x by (destruct x; cbn in *; subst; reflexivity). rewrite (upd_node_self l tg x Hf). reflexivity.
    - replace (set_st x (n_t x, None)) with x by (destruct x; cbn in *; subst; reflexivity). rewrite (upd_node_self l tg x Hf). reflexivity. }
  rewrite Step, (IH vs _ (i + 1)) by (rewrite ids_cmap; exact Hnd). rewrite cmap_cmap. reflexivity.
Qed.

(* with distinct targets, an operation does at most one register step to each element *)
Definition one_step (k : tkey) (g : ts -> est -> est) : Prop :=
  forall id, (forall st, g id st = st) \/ (exists e, ebounded e /\ eoid e = k /\ forall st, g id st = eapply st e).

Lemma dfold_notin tgs t id : ~ In id tgs -> forall i st, dfold tgs t i id st = st.
Proof.
  induction tgs as [|tg tgs IH]; intros Hn i st; cbn [dfold]; [reflexivity|]. unfold at1.
  destruct (ts_eqb id tg) eqn:E; [apply ts_eqb_eq in E; exfalso; apply Hn; left; auto|]. apply IH. intros H. apply Hn. right. exact H.
Qed.
Lemma ufold_notin tgs t id : ~ In id tgs -> forall vs i st, ufold tgs vs t i id st = st.
Proof.
  induction tgs as [|tg tgs IH]; intros Hn vs i st; cbn [ufold]; [reflexivity|]. destruct vs as [|v vs]; [reflexivity|]. unfold at1.
  destruct (ts_eqb id tg) eqn:E; [apply ts_eqb_eq in E; exfalso; apply Hn; left; auto|]. apply IH. intros H. apply Hn. right. exact H.
Qed.
Lemma dfold_one tgs t : ts_bounded t -> NoDup tgs -> forall i, one_step (key_of t) (dfold tgs t i).
Proof.
  intros Ht. induction 1 as [|tg tgs Hn _ IH]; intros i id; cbn [dfold]; [left; reflexivity|]. unfold at1.
  destruct (ts_eqb id tg) eqn:E.
  - apply ts_eqb_eq in E. subst id. right. exists (EDel (ts_at t i)). split; [exact Ht|]. split; [reflexivity|].
    intros st. apply dfold_notin. exact Hn.
  - apply IH.
Qed.
Lemma ufold_one tgs t : ts_bounded t -> NoDup tgs -> forall vs i, one_step (key_of t) (ufold tgs vs t i).
Proof.
  intros Ht. induction 1 as [|tg tgs Hn _ IH]; intros vs i id; cbn [ufold]; [left; reflexivity|]. destruct vs as [|v vs]; [left; reflexivity|]. unfold at1.
  destruct (ts_eqb id tg) eqn:E.
  - apply ts_eqb_eq in E. subst id. right. exists (EUpd (ts_at t i) v). split; [exact Ht|]. split; [reflexivity|].
    intros st. apply ufold_notin. exact Hn.
  - apply IH.
Qed.

(* ---------- operations as actions on node lists ---------- *)
Inductive act :=
| AIns (tg : ts) (k : tkey) (N : list node)
| ACm (k : tkey) (g : ts -> est -> est) (tgs : list ts)
| ANop.

Definition pl (l : list node) (tg : ts) (F : list node -> list node) : list node :=
  match place l tg F with Some r => r | None => l end.
Definition aexec (l : list node) (a : act) : list node :=
  match a with
  | AIns tg k N => pl l tg (fun r => blk r k N)
  | ACm _ g _ => cmap g l
  | ANop => l
  end.

Definition nkeys (l : list node) : list tkey := map kx l ++ map (fun x => key_of (n_t x)) l.
Definition lgood (l : list node) : Prop := NoDup (ids l) /\ bnodes l.
Definition newnodes (k : tkey) (N : list node) : Prop :=
  Forall (fun n => kx n = k /\ key_of (n_t n) = k /\ ts_bounded (n_o n) /\ ts_bounded (n_t n)) N /\ NoDup (ids N).
Definition aready (l : list node) (a : act) : Prop :=
  match a with
  | AIns tg k N => ~ In k (nkeys l) /\ (ts_eqb tg oldest_ts = true \/ In tg (ids l)) /\ newnodes k N
  | ACm k g tgs => ~ In k (nkeys l) /\ incl tgs (ids l) /\ one_step k g /\ (forall id, ~ In id tgs -> forall st, g id st = st)
  | ANop => True
  end.
Definition akey (a : act) : option tkey := match a with AIns _ k _ => Some k | ACm k _ _ => Some k | ANop => None end.

Lemma in_nkeys l k : In k (nkeys l) <-> exists x, In x l /\ (kx x = k \/ key_of (n_t x) = k).
Proof.
  unfold nkeys. rewrite in_app_iff, !in_map_iff. split.
  - intros [[x [E H]]|[x [E H]]]; exists x; auto.
  - intros [x [H [E|E]]]; [left|right]; exists x; auto.
Qed.

Lemma aft_perm N F : (forall r, Permutation (F r) (N ++ r)) -> forall l tg r, aft l tg F = Some r -> Permutation r (N ++ l).
Proof.
  intros HF. induction l as [|x xs IH]; intros tg r; cbn [aft]; [discriminate|]. destruct (ts_eqb (n_o x) tg).
  - intros [= <-]. rewrite HF. apply Permutation_middle.
  - destruct (aft xs tg F) as [r'|] eqn:E; [|discriminate]. intros [= <-]. rewrite (IH tg r' E). apply Permutation_middle.
Qed.

Lemma place_some l tg F : ts_eqb tg oldest_ts = true \/ In tg (ids l) -> exists r, place l tg F = Some r.
Proof. unfold place. intros [->|H]; [eexists; reflexivity|]. destruct (ts_eqb tg oldest_ts); [eexists; reflexivity|]. apply aft_in. exact H. Qed.

Lemma ins_perm l tg k N : ts_eqb tg oldest_ts = true \/ In tg (ids l) -> Permutation (pl l tg (fun r => blk r k N)) (N ++ l).
Proof.
  intros H. unfold pl. destruct (place_some l tg (fun r => blk r k N) H) as [r E]. rewrite E. unfold place in E.
  destruct (ts_eqb tg oldest_ts); [injection E as <-; apply blk_perm|]. eapply aft_perm; [|exact E]. intros r0. apply blk_perm.
Qed.

Lemma cmap_in g l y : In y (cmap g l) -> exists x, In x l /\ y = set_st x (g (n_o x) (node_st x)).
Proof. unfold cmap. intros H. apply in_map_iff in H. destruct H as [x [E Hx]]. exists x. auto. Qed.

Lemma one_step_key k g id st : one_step k g -> fst (g id st) = fst st \/ (key_of (fst (g id st)) = k /\ ts_bounded (fst (g id st))).
Proof.
  intros H. destruct (H id) as [E|[e [Hb [Hk E]]]]; rewrite E; [left; reflexivity|].
  destruct (eapply_key st e) as [E2|E2]; rewrite E2; [left; reflexivity|right]. split; [exact Hk|exact Hb].
Qed.

(* what an action does to identities and keys *)
Lemma aexec_ids l a : aready l a -> forall id, In id (ids l) -> In id (ids (aexec l a)).
Proof.
  destruct a as [tg k N|k g tgs|]; cbn [aready aexec]; [| |auto].
  - intros [_ [Ht _]] id Hid. unfold ids. eapply Permutation_in; [apply Permutation_sym, Permutation_map, ins_perm; exact Ht|].
    rewrite map_app. apply in_or_app. right. exact Hid.
  - intros _ id Hid. rewrite ids_cmap. exact Hid.
Qed.
Lemma aexec_keys l a k' : aready l a -> In k' (nkeys (aexec l a)) -> In k' (nkeys l) \/ akey a = Some k'.
Proof.
  destruct a as [tg k N|k g tgs|]; cbn [aready aexec akey]; [| |auto].
  - intros [_ [Ht [HN _]]] Hin. apply in_nkeys in Hin. destruct Hin as [x [Hx Hk]].
    apply (Permutation_in _ (ins_perm l tg k N Ht)) in Hx. apply in_app_or in Hx. destruct Hx as [Hx|Hx].
    + right. rewrite Forall_forall in HN. destruct (HN x Hx) as [E1 [E2 _]]. destruct Hk as [<-|<-]; congruence.
    + left. apply in_nkeys. exists x. auto.
  - intros [_ [_ [H1 _]]] Hin. apply in_nkeys in Hin. destruct Hin as [y [Hy Hk]]. apply cmap_in in Hy. destruct Hy as [x [Hx ->]].
    unfold kx, set_st in Hk. cbn [n_o n_t] in Hk. destruct Hk as [Hk|Hk].
    + left. apply in_nkeys. exists x. auto.
    + destruct (one_step_key k g (n_o x) (node_st x) H1) as [E|[E _]].
      * left. apply in_nkeys. exists x. split; [exact Hx|right]. rewrite E in Hk. exact Hk.
      * right. congruence.
Qed.

Lemma NoDup_app_both {A} (l1 l2 : list A) : NoDup l1 -> NoDup l2 -> (forall x, In x l1 -> In x l2 -> False) -> NoDup (l1 ++ l2).
Proof.
  intros H1 H2 Hd. induction H1 as [|a l Ha H1 IH]; cbn; [exact H2|]. constructor.
  - rewrite in_app_iff. intros [H|H]; [tauto|]. apply (Hd a); [left; reflexivity|exact H].
  - apply IH. intros x Hx. apply Hd. right. exact Hx.
Qed.

Lemma aexec_good l a : lgood l -> aready l a -> lgood (aexec l a).
Proof.
  intros [Hnd Hb]. destruct a as [tg k N|k g tgs|]; cbn [aready aexec]; [| |intros _; split; assumption].
  - intros [Hk [Ht [HN HNnd]]]. pose proof (ins_perm l tg k N Ht) as P. split.
    + unfold ids. eapply Permutation_NoDup; [apply Permutation_sym, Permutation_map; exact P|]. rewrite map_app.
      apply NoDup_app_both; [exact HNnd|exact Hnd|]. intros id H1 H2. apply Hk. apply in_map_iff in H1, H2.
      destruct H1 as [n [E1 Hn]], H2 as [x [E2 Hx]]. rewrite Forall_forall in HN. destruct (HN n Hn) as [E _].
      apply in_nkeys. exists x. split; [exact Hx|left]. unfold kx in *. rewrite E2, <- E1. exact E.
    + unfold bnodes. eapply Permutation_Forall; [apply Permutation_sym; exact P|]. apply Forall_app. split; [|exact Hb].
      eapply Forall_impl; [|exact HN]. cbn. intros n [_ [_ H]]. exact H.
  - intros [Hk [_ [H1 _]]]. split; [rewrite ids_cmap; exact Hnd|]. unfold bnodes in *. apply Forall_forall. intros y Hy.
    apply cmap_in in Hy. destruct Hy as [x [Hx ->]]. rewrite Forall_forall in Hb. destruct (Hb x Hx) as [B1 B2]. unfold set_st. cbn [n_o n_t].
    split; [exact B1|]. destruct (one_step_key k g (n_o x) (node_st x) H1) as [E|[_ E]]; [rewrite E; exact B2|exact E].
Qed.

Lemma aready_mono l a b : lgood l -> aready l a -> aready l b -> (forall k, akey a = Some k -> akey b <> Some k) ->
  aready (aexec l a) b.
Proof.
  intros Hg Ha Hb Hab. destruct b as [tg k N|k g tgs|]; cbn [aready akey] in *; [| |exact I].
  - destruct Hb as [Hk [Ht HN]]. split; [|split; [|exact HN]].
    + intros Hin. destruct (aexec_keys l a k Ha Hin) as [H|H]; [exact (Hk H)|]. exact (Hab k H eq_refl).
    + destruct Ht as [Ht|Ht]; [left; exact Ht|right; apply aexec_ids; assumption].
  - destruct Hb as [Hk [Ht HN]]. split; [|split; [|exact HN]].
    + intros Hin. destruct (aexec_keys l a k Ha Hin) as [H|H]; [exact (Hk H)|]. exact (Hab k H eq_refl).
    + intros id Hid. apply aexec_ids; [exact Ha|]. apply Ht. exact Hid.
Qed.

Lemma kx_set_st x st : kx (set_st x st) = kx x.
Proof. reflexivity. Qed.
Lemma cmap_app g a b : cmap g (a ++ b) = cmap g a ++ cmap g b.
Proof. apply map_app. Qed.
Lemma cmap_blk g k N : forall l, cmap g (blk l k N) = blk (cmap g l) k (cmap g N).
Proof.
  induction l as [|x xs IH]; cbn [blk cmap map]; [reflexivity|]. rewrite kx_set_st. destruct (klt k (kx x)).
  - cbn [map]. f_equal. exact IH.
  - fold (cmap g (N ++ x :: xs)). rewrite cmap_app. reflexivity.
Qed.
Lemma cmap_aft g F tg : (forall r, F (cmap g r) = cmap g (F r)) -> forall l, aft (cmap g l) tg F = option_map (cmap g) (aft l tg F).
Proof.
  intros HF. induction l as [|x xs IH]; cbn [cmap map aft]; [reflexivity|]. fold (cmap g xs). cbn [set_st n_o].
  destruct (ts_eqb (n_o x) tg); [cbn [option_map cmap map]; rewrite HF; reflexivity|]. rewrite IH. destruct (aft xs tg F); reflexivity.
Qed.

(* new nodes are not among the nodes of the list, nor among the targets of an operation that finds its targets there *)
Lemma new_not_in l k N n : ~ In k (nkeys l) -> newnodes k N -> In n N -> ~ In (n_o n) (ids l).
Proof.
  intros Hk [HN _] Hn Hin. apply Hk. apply in_map_iff in Hin. destruct Hin as [x [E Hx]]. rewrite Forall_forall in HN.
  destruct (HN n Hn) as [E1 _]. apply in_nkeys. exists x. split; [exact Hx|left]. unfold kx in *. rewrite E. exact E1.
Qed.
Lemma target_not_new l k N tg : ~ In k (nkeys l) -> newnodes k N -> In tg (ids l) -> ~ In tg (ids N).
Proof.
  intros Hk HN Htg Hin. apply in_map_iff in Hin. destruct Hin as [n [E Hn]]. apply (new_not_in l k N n Hk HN Hn). rewrite E. exact Htg.
Qed.

Lemma place_comm F1 F2 N1 N2 tg1 tg2 l :
  (forall r, F1 (F2 r) = F2 (F1 r)) ->
  (forall R tg, ~ In tg (ids N1) -> aft (F1 R) tg F2 = option_map F1 (aft R tg F2)) ->
  (forall R tg, ~ In tg (ids N2) -> aft (F2 R) tg F1 = option_map F2 (aft R tg F1)) ->
  (ts_eqb tg1 oldest_ts = false -> ~ In tg1 (ids N2)) -> (ts_eqb tg2 oldest_ts = false -> ~ In tg2 (ids N1)) ->
  obind (place l tg1 F1) (fun l1 => place l1 tg2 F2) = obind (place l tg2 F2) (fun l2 => place l2 tg1 F1).
Proof.
  intros C A1 A2 H1 H2. unfold place. destruct (ts_eqb tg1 oldest_ts) eqn:E1, (ts_eqb tg2 oldest_ts) eqn:E2; cbn [obind].
  - rewrite ?E1, C. reflexivity.
  - rewrite (A1 l tg2 (H2 eq_refl)). destruct (aft l tg2 F2); cbn [option_map obind]; rewrite ?E1; reflexivity.
  - rewrite (A2 l tg1 (H1 eq_refl)). destruct (aft l tg1 F1); cbn [option_map obind]; rewrite ?E2; reflexivity.
  - assert (G : obind (aft l tg1 F1) (fun l1 => aft l1 tg2 F2) = obind (aft l tg2 F2) (fun l2 => aft l2 tg1 F1))
      by (apply (aft_comm F1 F2 N1 N2 C A1 A2); auto).
    destruct (aft l tg1 F1), (aft l tg2 F2); cbn [obind] in *; rewrite ?E1, ?E2; exact G.
Qed.

Lemma aexec_comm l a b : lgood l -> aready l a -> aready l b -> (forall k, akey a = Some k -> akey b <> Some k) ->
  aexec (aexec l a) b = aexec (aexec l b) a.
Proof.
  intros Hg Ha Hb Hab. pose proof Hg as [Hnd Hbn].
  destruct a as [tg1 k1 N1|k1 g1 tgs1|], b as [tg2 k2 N2|k2 g2 tgs2|]; cbn [aexec]; try reflexivity.
  - (* two inserts *)
    cbn [aready akey] in *. destruct Ha as [Hk1 [Ht1 HN1]], Hb as [Hk2 [Ht2 HN2]].
    assert (Hne : k1 <> k2) by (intros E; apply (Hab k1 eq_refl); rewrite E; reflexivity).
    pose proof HN1 as [HF1 _]. pose proof HN2 as [HF2 _].
    assert (K1 : Forall (fun n => kx n = k1) N1) by (eapply Forall_impl; [|exact HF1]; cbn; tauto).
    assert (K2 : Forall (fun n => kx n = k2) N2) by (eapply Forall_impl; [|exact HF2]; cbn; tauto).
    set (F1 := fun r => blk r k1 N1). set (F2 := fun r => blk r k2 N2).
    assert (C : forall r, F1 (F2 r) = F2 (F1 r)) by (intros r; unfold F1, F2; symmetry; apply blk_comm; assumption).
    assert (A1 : forall R tg, ~ In tg (ids N1) -> aft (F1 R) tg F2 = option_map F1 (aft R tg F2)).
    { intros R tg Hn. unfold F1. apply (blk_aft k1 N1 tg F2 Hn). intros r. symmetry. apply C. }
    assert (A2 : forall R tg, ~ In tg (ids N2) -> aft (F2 R) tg F1 = option_map F2 (aft R tg F1)).
    { intros R tg Hn. unfold F2. apply (blk_aft k2 N2 tg F1 Hn). intros r. apply C. }
    assert (T1 : ts_eqb tg1 oldest_ts = false -> ~ In tg1 (ids N2)).
    { intros E. destruct Ht1 as [Ht1|Ht1]; [congruence|]. apply (target_not_new l k2 N2 tg1 Hk2 HN2 Ht1). }
    assert (T2 : ts_eqb tg2 oldest_ts = false -> ~ In tg2 (ids N1)).
    { intros E. destruct Ht2 as [Ht2|Ht2]; [congruence|]. apply (target_not_new l k1 N1 tg2 Hk1 HN1 Ht2). }
    pose proof (place_comm F1 F2 N1 N2 tg1 tg2 l C A1 A2 T1 T2) as P.
    unfold pl. destruct (place_some l tg1 F1 Ht1) as [l1 E1]. destruct (place_some l tg2 F2 Ht2) as [l2 E2].
    rewrite E1, E2 in *. cbn [obind] in P. rewrite P.
    assert (S : exists r, place l2 tg1 F1 = Some r).
    { apply place_some. destruct Ht1 as [H|H]; [left; exact H|right].
      replace l2 with (aexec l (AIns tg2 k2 N2)) by (cbn [aexec]; unfold pl; fold F2; rewrite E2; reflexivity).
      apply aexec_ids; [cbn [aready]; auto|exact H]. }
    destruct S as [r S]. rewrite S. reflexivity.
  - (* insert, then change of content *)
    cbn [aready akey] in *. destruct Ha as [Hk1 [Ht1 HN1]], Hb as [Hk2 [Ht2 [H1 H2]]].
    assert (EN : cmap g2 N1 = N1).
    { apply cmap_id. intros n Hn. apply H2. intros Hin. apply (new_not_in l k1 N1 n Hk1 HN1 Hn). apply Ht2. exact Hin. }
    assert (HF : forall r, blk (cmap g2 r) k1 N1 = cmap g2 (blk r k1 N1)) by (intros r; rewrite cmap_blk, EN; reflexivity).
    unfold pl, place. destruct (ts_eqb tg1 oldest_ts); [symmetry; apply HF|].
    rewrite (cmap_aft g2 (fun r => blk r k1 N1) tg1 HF l). destruct (aft l tg1 _); reflexivity.
  - cbn [aready akey] in *. destruct Hb as [Hk1 [Ht1 HN1]], Ha as [Hk2 [Ht2 [H1 H2]]].
    assert (EN : cmap g1 N2 = N2).
    { apply cmap_id. intros n Hn. apply H2. intros Hin. apply (new_not_in l k2 N2 n Hk1 HN1 Hn). apply Ht2. exact Hin. }
    assert (HF : forall r, blk (cmap g1 r) k2 N2 = cmap g1 (blk r k2 N2)) by (intros r; rewrite cmap_blk, EN; reflexivity).
    unfold pl, place. destruct (ts_eqb tg2 oldest_ts); [apply HF|].
    rewrite (cmap_aft g1 (fun r => blk r k2 N2) tg2 HF l). destruct (aft l tg2 _); reflexivity.
  - (* two changes of content: the element register *)
    cbn [aready akey] in *. destruct Ha as [Hk1 [_ [O1 _]]], Hb as [Hk2 [_ [O2 _]]].
    assert (Hne : k1 <> k2) by (intros E; apply (Hab k1 eq_refl); rewrite E; reflexivity).
    rewrite !cmap_cmap. apply cmap_ext. intros x Hx.
    destruct (O1 (n_o x)) as [E1|[e1 [B1 [K1 E1]]]], (O2 (n_o x)) as [E2|[e2 [B2 [K2 E2]]]]; rewrite ?E1, ?E2, ?E1, ?E2; try reflexivity.
    + unfold bnodes in Hbn. rewrite Forall_forall in Hbn. destruct (Hbn x Hx) as [_ Bx].
      apply eapply_comm; auto.
      * unfold eoid in *. congruence.
      * unfold eoid in K1. rewrite K1. intros E. apply Hk1. apply in_nkeys. exists x. split; [exact Hx|right; exact E].
      * unfold eoid in K2. rewrite K2. intros E. apply Hk2. apply in_nkeys. exists x. split; [exact Hx|right; exact E].
Qed.

(* ---------- the operations of the list ---------- *)
Definition loid (o : op) : tkey := key_of (opid_ts (op_id o)).
Definition act_of (o : op) : act :=
  match o with
  | OIns i tg vs => AIns tg (key_of (opid_ts i)) (mk_nodes (opid_ts i) 0 vs)
  | ODel i tgs => ACm (key_of (opid_ts i)) (dfold tgs (opid_ts i) 0) tgs
  | OUpd i tgs vs => ACm (key_of (opid_ts i)) (ufold tgs vs (opid_ts i) 0) tgs
  | _ => ANop
  end.
(* an operation can be executed: its timestamp is new to the replica and within the comparison's plain range, the
   elements it addresses are there (what causal delivery provides), and it addresses no element twice (what the local
   execution that produced it guarantees).  The snapshot operation replaces the state and is not exchanged. *)
Definition lready (l : list node) (o : op) : Prop :=
  match o with
  | OIns i tg vs => ts_bounded (opid_ts i) /\ ~ In (loid o) (nkeys l) /\ (ts_eqb tg oldest_ts = true \/ In tg (ids l))
  | ODel i tgs => ts_bounded (opid_ts i) /\ ~ In (loid o) (nkeys l) /\ NoDup tgs /\ incl tgs (ids l)
  | OUpd i tgs vs => ts_bounded (opid_ts i) /\ ~ In (loid o) (nkeys l) /\ NoDup tgs /\ incl tgs (ids l)
  | OSnap _ => False
  | _ => True
  end.

Lemma mk_nodes_new t vs : ts_bounded t -> newnodes (key_of t) (mk_nodes t 0 vs).
Proof.
  intros Ht. split; [|apply mk_nodes_nodup]. eapply Forall_impl; [|apply (mk_nodes_facts t vs 0)]. cbn.
  intros n [H1 [H2 [j [H3 _]]]]. unfold kx. rewrite H1. split; [exact H2|]. split; [exact H2|]. rewrite <- H1, H3. split; exact Ht.
Qed.

Lemma lready_aready l o : lready l o -> aready l (act_of o).
Proof.
  destruct o as [i|i tag n|i d|i k v|i k|i target vs|i targets|i targets vs|i p k v|i p k|i p target vs|i p targets|i p targets vs];
    cbn [lready act_of aready]; try (intros; exact I); try contradiction.
  - intros [Hb [Hf Ht]]. split; [exact Hf|]. split; [exact Ht|]. apply mk_nodes_new. exact Hb.
  - intros [Hb [Hf [Hn Hi]]]. split; [exact Hf|]. split; [exact Hi|]. split; [apply dfold_one; assumption|].
    intros id Hid st. apply dfold_notin. exact Hid.
  - intros [Hb [Hf [Hn Hi]]]. split; [exact Hf|]. split; [exact Hi|]. split; [apply ufold_one; assumption|].
    intros id Hid st. apply ufold_notin. exact Hid.
Qed.

Lemma aft_ext_bn F F' tg : (forall r, bnodes r -> F r = F' r) -> forall l, bnodes l -> aft l tg F = aft l tg F'.
Proof.
  intros H. induction l as [|x xs IH]; intros Hb; cbn [aft]; [reflexivity|]. inversion Hb as [|? ? _ Hb']; subst.
  rewrite (H xs Hb'), (IH Hb'). reflexivity.
Qed.

Lemma nexec_aexec l o : lgood l -> lready l o -> nexec l o = aexec l (act_of o).
Proof.
  intros [Hnd Hb].
  destruct o as [i|i tag n|i d|i k v|i k|i target vs|i targets|i targets vs|i p k v|i p k|i p target vs|i p targets|i p targets vs];
    cbn [lready act_of aexec nexec]; try reflexivity; try contradiction.
  - intros [Ht _]. unfold pl, place.
    assert (E : forall r, bnodes r -> ins_many r (mk_nodes (opid_ts i) 0 vs) = blk r (key_of (opid_ts i)) (mk_nodes (opid_ts i) 0 vs)).
    { intros r Hr. apply ins_many_blk; [|exact Hr]. destruct (mk_nodes_new (opid_ts i) vs Ht) as [HF _].
      eapply Forall_impl; [|exact HF]. cbn. tauto. }
    rewrite (E l Hb), (aft_ext_bn _ _ target E l Hb). reflexivity.
  - intros _. apply delete_cmap. exact Hnd.
  - intros _. apply update_cmap. exact Hnd.
Qed.

Lemma akey_act o k : akey (act_of o) = Some k -> k = loid o.
Proof. destruct o; cbn; intros [= <-]; reflexivity. Qed.

Lemma lready_transfer l l' o : lready l o -> aready l' (act_of o) -> lready l' o.
Proof.
  destruct o as [i|i tag n|i d|i k v|i k|i target vs|i targets|i targets vs|i p k v|i p k|i p target vs|i p targets|i p targets vs];
    cbn [lready act_of aready]; auto.
  - intros [Hb _] [Hf [Ht _]]. auto.
  - intros [Hb [_ [Hn _]]] [Hf [Hi _]]. auto.
  - intros [Hb [_ [Hn _]]] [Hf [Hi _]]. auto.
Qed.

Lemma lgood_step l o : lgood l -> lready l o -> lgood (nexec l o).
Proof. intros Hg Hr. rewrite (nexec_aexec l o Hg Hr). apply aexec_good; [exact Hg|apply lready_aready; exact Hr]. Qed.

Lemma lready_mono l a b : lgood l -> loid a <> loid b -> lready l a -> lready l b -> lready (nexec l a) b.
Proof.
  intros Hg Hab Ha Hb. rewrite (nexec_aexec l a Hg Ha). apply (lready_transfer l _ b Hb).
  apply aready_mono; [exact Hg|apply lready_aready; exact Ha|apply lready_aready; exact Hb|].
  intros k E1 E2. apply akey_act in E1, E2. congruence.
Qed.

Lemma nexec_comm l a b : lgood l -> loid a <> loid b -> lready l a -> lready l b ->
  nexec (nexec l a) b = nexec (nexec l b) a.
Proof.
  intros Hg Hab Ha Hb.
  rewrite (nexec_aexec (nexec l a) b (lgood_step l a Hg Ha) (lready_mono l a b Hg Hab Ha Hb)).
  rewrite (nexec_aexec (nexec l b) a (lgood_step l b Hg Hb) (lready_mono l b a Hg (fun E => Hab (eq_sym E)) Hb Ha)).
  rewrite (nexec_aexec l a Hg Ha), (nexec_aexec l b Hg Hb).
  apply aexec_comm; [exact Hg|apply lready_aready; exact Ha|apply lready_aready; exact Hb|].
  intros k E1 E2. apply akey_act in E1, E2. congruence.
Qed.

Lemma lgood_nil : lgood [].
Proof. split; constructor. Qed.

(* ---------- convergence ---------- *)
Theorem list_nodes_converge l1 l2 :
  NoDup (map loid l1) -> Permutation l1 l2 ->
  exec_ok (list node) op nexec lready [] l1 -> exec_ok (list node) op nexec lready [] l2 ->
  fold_left nexec l1 [] = fold_left nexec l2 [].
Proof.
  intros Hnd Hp H1 H2.
  apply (executable_permutations_agree (list node) op tkey loid nexec lready lgood); auto.
  - apply lgood_step.
  - apply lready_mono.
  - apply nexec_comm.
  - apply lgood_nil.
Qed.

Definition l_ready (s : lstate) (o : op) : Prop := lready (l_nodes s) o.

Lemma exec_ok_nodes ops : forall s,
  exec_ok lstate op l_exec_remote l_ready s ops <-> exec_ok (list node) op nexec lready (l_nodes s) ops.
Proof.
  induction ops as [|o ops IH]; intros s; cbn [exec_ok]; [tauto|]. rewrite IH, nodes_exec. unfold l_ready. tauto.
Qed.

Theorem list_convergence l1 l2 :
  NoDup (map loid l1) -> Permutation l1 l2 ->
  exec_ok lstate op l_exec_remote l_ready l_init l1 -> exec_ok lstate op l_exec_remote l_ready l_init l2 ->
  l_nodes (fold_left l_exec_remote l1 l_init) = l_nodes (fold_left l_exec_remote l2 l_init).
Proof.
  intros Hnd Hp H1 H2. rewrite !nodes_fold. apply exec_ok_nodes in H1, H2. apply list_nodes_converge; assumption.
Qed.

(* ---------- the issuing replica: executing a call locally is executing the operation it produces ---------- *)
Definition nohead (l : list node) : Prop := ~ In oldest_ts (ids l).
(* the timestamp of a new local operation is greater than every timestamp in the state (the Lamport clock, C15) *)
Definition newest (l : list node) (k : tkey) : Prop := forall x, In x l -> klt (kx x) k = true /\ klt (key_of (n_t x)) k = true.

Lemma newest_fresh l k : newest l k -> ~ In k (nkeys l).
Proof.
  intros H Hin. apply in_nkeys in Hin. destruct Hin as [x [Hx [E|E]]]; destruct (H x Hx) as [H1 H2]; rewrite E in *; rewrite klt_irrefl in *; discriminate.
Qed.

Lemma ins_local_is_place k ns : forall l pos l' tg,
  ins_local l pos ns = Some (l', tg) -> NoDup (ids l) -> (forall x, In x l -> klt k (kx x) = false) ->
  (pos = 0%nat /\ tg = oldest_ts /\ l' = ns ++ l) \/ (In tg (ids l) /\ aft l tg (fun r => blk r k ns) = Some l').
Proof.
  induction l as [|x xs IH]; intros pos l' tg.
  - destruct pos; cbn [ins_local]; [|discriminate]. intros [= <- <-] _ _. left. auto.
  - destruct pos as [|p]; cbn [ins_local]; [intros [= <- <-] _ _; left; auto|].
    intros H Hnd Hk. inversion Hnd as [|? ? Hn Hnd']; subst.
    assert (Hk' : forall y, In y xs -> klt k (kx y) = false) by (intros y Hy; apply Hk; right; exact Hy).
    assert (Rec : forall q l'' t, ins_local xs (S q) ns = Some (l'', t) ->
              In t (ids (x :: xs)) /\ aft (x :: xs) t (fun r => blk r k ns) = Some (x :: l'')).
    { intros q l'' t E. destruct (IH (S q) l'' t E Hnd' Hk') as [[C _]|[I1 I2]]; [discriminate|].
      split; [right; exact I1|]. cbn [aft]. destruct (ts_eqb (n_o x) t) eqn:Et.
      - apply ts_eqb_eq in Et. exfalso. apply Hn. rewrite Et. exact I1.
      - rewrite I2. reflexivity. }
    right. destruct (live x).
    + destruct p as [|p'].
      * injection H as <- <-. split; [left; reflexivity|]. cbn [aft]. rewrite ts_eqb_refl. f_equal. f_equal.
        apply blk_stop. destruct xs as [|y ys]; [exact I|]. cbn. apply Hk'. left. reflexivity.
      * destruct (ins_local xs (S p') ns) as [[l'' t]|] eqn:E; [|discriminate]. injection H as <- <-. apply (Rec p' l'' t E).
    + destruct (ins_local xs (S p) ns) as [[l'' t]|] eqn:E; [|discriminate]. injection H as <- <-. apply (Rec p l'' t E).
Qed.

Lemma walk_live_is_cmap t : forall l pos num i l' touched,
  walk_live l pos num i (tomb t) = Some (l', touched) -> NoDup (ids l) ->
  l' = cmap (dfold (map n_o touched) t i) l /\ NoDup (map n_o touched) /\ incl (map n_o touched) (ids l).
Proof.
  induction l as [|x xs IH]; intros pos num i l' touched.
  - destruct num; cbn [walk_live]; [|discriminate]. intros [= <- <-] _. repeat split; [constructor|intros y []].
  - destruct num as [|num']; [cbn [walk_live]; intros [= <- <-] _; split; [symmetry; apply cmap_id; reflexivity|split; [constructor|intros y []]]|].
    cbn [walk_live]. intros H Hnd. inversion Hnd as [|? ? Hn Hnd']; subst.
    assert (Skip : forall p n j l'' tch, walk_live xs p n j (tomb t) = Some (l'', tch) ->
              x :: l'' = cmap (dfold (map n_o tch) t j) (x :: xs) /\ NoDup (map n_o tch) /\ incl (map n_o tch) (ids (x :: xs))).
    { intros p n j l'' tch E. destruct (IH p n j l'' tch E Hnd') as [I1 [I2 I3]]. split; [|split; [exact I2|intros y Hy; right; apply I3; exact Hy]].
      cbn [cmap map]. fold (cmap (dfold (map n_o tch) t j) xs). rewrite <- I1. f_equal.
      rewrite dfold_notin by (intros Hin; apply Hn; apply I3; exact Hin). symmetry. apply set_node_st. }
    destruct (live x) eqn:Lx.
    + destruct pos as [|pos'].
      * destruct (walk_live xs 0 num' (i + 1) (tomb t)) as [[l'' tch]|] eqn:E; [|discriminate]. injection H as <- <-.
        destruct (IH 0%nat num' (i + 1) l'' tch E Hnd') as [I1 [I2 I3]]. cbn [map].
        assert (Hnt : ~ In (n_o x) (map n_o tch)) by (intros Hin; apply Hn; apply I3; exact Hin).
        split; [|split; [constructor; assumption|intros y [<-|Hy]; [left; reflexivity|right; apply I3; exact Hy]]].
        cbn [cmap map dfold]. fold (cmap (dfold (n_o x :: map n_o tch) t i) xs). f_equal.
        -- unfold at1. rewrite ts_eqb_refl, dfold_notin by exact Hnt. unfold eapply, elive, node_st, tomb, set_st. cbn [fst snd].
           unfold live in Lx. destruct (n_v x); [reflexivity|discriminate].
        -- rewrite I1. unfold cmap. apply map_ext_in. intros y Hy. unfold at1. destruct (ts_eqb (n_o y) (n_o x)) eqn:Ey; [|reflexivity].
           apply ts_eqb_eq in Ey. exfalso. apply Hn. rewrite <- Ey. apply in_map. exact Hy.
      * destruct (walk_live xs pos' (S num') i (tomb t)) as [[l'' tch]|] eqn:E; [|discriminate]. injection H as <- <-. apply (Skip _ _ _ _ _ E).
    + destruct (walk_live xs pos (S num') i (tomb t)) as [[l'' tch]|] eqn:E; [|discriminate]. injection H as <- <-. apply (Skip _ _ _ _ _ E).
Qed.

Lemma walk_upd_is_cmap t : ts_bounded t -> forall l pos vs i l' touched,
  walk_upd l pos vs t i = Some (l', touched) -> NoDup (ids l) -> bnodes l -> newest l (key_of t) ->
  l' = cmap (ufold (map n_o touched) vs t i) l /\ NoDup (map n_o touched) /\ incl (map n_o touched) (ids l).
Proof.
  intros Ht. induction l as [|x xs IH]; intros pos vs i l' touched.
  - destruct vs; cbn [walk_upd]; [|discriminate]. intros [= <- <-] _ _ _. repeat split; [constructor|intros y []].
  - destruct vs as [|v vs']; [cbn [walk_upd]; intros [= <- <-] _ _ _; split; [symmetry; apply cmap_id; reflexivity|split; [constructor|intros y []]]|].
    cbn [walk_upd]. intros H Hnd Hb Hnew. inversion Hnd as [|? ? Hn Hnd']; subst. inversion Hb as [|? ? [_ Bx] Hb']; subst.
    assert (Hnew' : newest xs (key_of t)) by (intros y Hy; apply Hnew; right; exact Hy).
    assert (Skip : forall p ws j l'' tch, walk_upd xs p ws t j = Some (l'', tch) ->
              x :: l'' = cmap (ufold (map n_o tch) ws t j) (x :: xs) /\ NoDup (map n_o tch) /\ incl (map n_o tch) (ids (x :: xs))).
    { intros p ws j l'' tch E. destruct (IH p ws j l'' tch E Hnd' Hb' Hnew') as [I1 [I2 I3]]. split; [|split; [exact I2|intros y Hy; right; apply I3; exact Hy]].
      cbn [cmap map]. fold (cmap (ufold (map n_o tch) ws t j) xs). rewrite <- I1. f_equal.
      rewrite ufold_notin by (intros Hin; apply Hn; apply I3; exact Hin). symmetry. apply set_node_st. }
    destruct (live x) eqn:Lx.
    + destruct pos as [|pos'].
      * destruct (walk_upd xs 0 vs' t (i + 1)) as [[l'' tch]|] eqn:E; [|discriminate]. injection H as <- <-.
        destruct (IH 0%nat vs' (i + 1) l'' tch E Hnd' Hb' Hnew') as [I1 [I2 I3]]. cbn [map].
        assert (Hnt : ~ In (n_o x) (map n_o tch)) by (intros Hin; apply Hn; apply I3; exact Hin).
        split; [|split; [constructor; assumption|intros y [<-|Hy]; [left; reflexivity|right; apply I3; exact Hy]]].
        cbn [cmap map ufold]. fold (cmap (ufold (n_o x :: map n_o tch) (v :: vs') t i) xs). f_equal.
        -- unfold at1. rewrite ts_eqb_refl, ufold_notin by exact Hnt. unfold eapply, elive, node_st, set_st. cbn [fst snd].
           unfold live in Lx. destruct (n_v x); [|discriminate]. cbn [andb].
           rewrite (ts_lt_klt (n_t x) (ts_at t i) Bx Ht). destruct (Hnew x (or_introl eq_refl)) as [_ K]. rewrite key_ts_at, K. reflexivity.
        -- rewrite I1. unfold cmap. apply map_ext_in. intros y Hy. unfold at1. destruct (ts_eqb (n_o y) (n_o x)) eqn:Ey; [|reflexivity].
           apply ts_eqb_eq in Ey. exfalso. apply Hn. rewrite <- Ey. apply in_map. exact Hy.
      * destruct (walk_upd xs pos' (v :: vs') t i) as [[l'' tch]|] eqn:E; [|discriminate]. injection H as <- <-. apply (Skip _ _ _ _ _ E).
    + destruct (walk_upd xs pos (v :: vs') t i) as [[l'' tch]|] eqn:E; [|discriminate]. injection H as <- <-. apply (Skip _ _ _ _ _ E).
Qed.

Theorem list_local_is_remote s c i s' o r :
  l_exec_local s c i = Some (s', o, r) ->
  lgood (l_nodes s) -> nohead (l_nodes s) -> ts_bounded (opid_ts i) -> newest (l_nodes s) (key_of (opid_ts i)) ->
  lready (l_nodes s) o /\ l_nodes s' = nexec (l_nodes s) o.
Proof.
  intros H Hg Hh Ht Hnew. pose proof Hg as [Hnd Hb]. pose proof (newest_fresh _ _ Hnew) as Hf.
  assert (Fin : forall o', lready (l_nodes s) o' -> forall l', l' = aexec (l_nodes s) (act_of o') -> lready (l_nodes s) o' /\ l' = nexec (l_nodes s) o').
  { intros o' Hr l' E. split; [exact Hr|]. rewrite (nexec_aexec _ o' Hg Hr). exact E. }
  destruct c as [pos vs|pos num|pos vs]; cbn [l_exec_local] in H.
  - destruct (ins_local (l_nodes s) (Z.to_nat pos) (mk_nodes (opid_ts i) 0 vs)) as [[l' tg]|] eqn:E; [|discriminate]. injection H as <- <- _.
    cbn [l_nodes].
    assert (Hk : forall x, In x (l_nodes s) -> klt (key_of (opid_ts i)) (kx x) = false) by (intros x Hx; apply klt_asym; apply (Hnew x Hx)).
    destruct (ins_local_is_place (key_of (opid_ts i)) _ _ _ _ _ E Hnd Hk) as [[_ [-> ->]]|[I1 I2]].
    + apply Fin; [cbn [lready]; split; [exact Ht|split; [exact Hf|left; reflexivity]]|].
      cbn [act_of aexec]. unfold pl, place. cbn. symmetry. apply blk_stop. destruct (l_nodes s) as [|y ys]; [exact I|]. cbn. apply Hk. left. reflexivity.
    + apply Fin; [cbn [lready]; split; [exact Ht|split; [exact Hf|right; exact I1]]|].
      cbn [act_of aexec]. unfold pl, place. destruct (ts_eqb tg oldest_ts) eqn:Eo; [apply ts_eqb_eq in Eo; subst tg; contradiction|]. rewrite I2. reflexivity.
  - unfold l_delete_local in H. destruct (walk_live (l_nodes s) (Z.to_nat pos) (Z.to_nat num) 0 (tomb (opid_ts i))) as [[l' touched]|] eqn:E; [|discriminate].
    injection H as <- <- _. cbn [l_nodes]. destruct (walk_live_is_cmap _ _ _ _ _ _ _ E Hnd) as [I1 [I2 I3]].
    apply Fin; [cbn [lready]; auto|]. exact I1.
  - unfold l_update_local in H. destruct (walk_upd (l_nodes s) (Z.to_nat pos) vs (opid_ts i) 0) as [[l' touched]|] eqn:E; [|discriminate].
    injection H as <- <- _. cbn [l_nodes]. destruct (walk_upd_is_cmap _ Ht _ _ _ _ _ _ E Hnd Hb Hnew) as [I1 [I2 I3]].
    apply Fin; [cbn [lready]; auto|]. exact I1.
Qed.

(* ---------- the size counter follows the nodes ---------- *)
Definition cnt (l : list node) : Z := Z.of_nat (length (values_of l)).
Definition b2z (b : bool) : Z := if b then 1%Z else 0%Z.

Lemma cnt_cons x l : cnt (x :: l) = (b2z (live x) + cnt l)%Z.
Proof. unfold cnt, values_of, live. cbn [flat_map]. rewrite app_length. destruct (n_v x); cbn [length b2z]; lia. Qed.
Lemma cnt_upd_node l tg c x : find_node l tg = Some x -> cnt (upd_node l tg (fun _ => c)) = (cnt l - b2z (live x) + b2z (live c))%Z.
Proof.
  unfold find_node. induction l as [|y l IH]; cbn [find upd_node]; [discriminate|]. destruct (ts_eqb (n_o y) tg).
  - intros [= ->]. rewrite !cnt_cons. lia.
  - intros H. rewrite !cnt_cons, (IH H). lia.
Qed.
Lemma cnt_perm l l' : Permutation l l' -> cnt l = cnt l'.
Proof. intros P. unfold cnt, values_of. f_equal. apply Permutation_length. apply Permutation_flat_map. exact P. Qed.
Lemma cnt_app a b : cnt (a ++ b) = (cnt a + cnt b)%Z.
Proof. unfold cnt. rewrite vals_app, app_length. lia. Qed.

Lemma delete_go_size tgs t : forall l sz i,
  (snd (l_delete_remote_go l sz tgs t i) - cnt (fst (l_delete_remote_go l sz tgs t i)) = sz - cnt l)%Z.
Proof.
  induction tgs as [|tg tgs IH]; intros l sz i; cbn [l_delete_remote_go]; [cbn; lia|].
  destruct (find_node l tg) as [x|] eqn:Hf; [|apply IH].
  destruct (live x) eqn:Lx.
  - rewrite IH, (upd_node_at l tg _ x Hf), (cnt_upd_node l tg _ x Hf), Lx. cbn. lia.
  - destruct (ts_lt (n_t x) (ts_at t i)); [|apply IH].
    rewrite IH, (upd_node_at l tg _ x Hf), (cnt_upd_node l tg _ x Hf), Lx. cbn. lia.
Qed.
Lemma update_go_size tgs t : forall vs l i, cnt (l_update_remote_go l tgs vs t i) = cnt l.
Proof.
  induction tgs as [|tg tgs IH]; intros vs l i; cbn [l_update_remote_go]; [reflexivity|]. destruct vs as [|v vs]; [reflexivity|].
  destruct (find_node l tg) as [x|] eqn:Hf; [|apply IH]. destruct (live x) eqn:Lx; cbn [andb]; [|apply IH].
  destruct (ts_lt (n_t x) (ts_at t i)); [|apply IH]. rewrite IH, (upd_node_at l tg _ x Hf), (cnt_upd_node l tg _ x Hf), Lx. cbn. lia.
Qed.

Definition lsized (s : lstate) : Prop := l_size s = cnt (l_nodes s).

Lemma lsized_step s o : lgood (l_nodes s) -> l_ready s o -> lsized s -> lsized (l_exec_remote s o).
Proof.
  unfold lsized, l_ready. intros Hg Hr Hs.
  destruct o as [i|i tag n|i d|i k v|i k|i target vs|i targets|i targets vs|i p k v|i p k|i p target vs|i p targets|i p targets vs];
    cbn [l_exec_remote lready] in *; try exact Hs; try contradiction.
  - destruct Hr as [Ht [Hf Htg]]. pose proof (nodes_exec s (OIns i target vs)) as E. cbn [l_exec_remote] in E.
    assert (Hr : lready (l_nodes s) (OIns i target vs)) by (cbn [lready]; auto).
    rewrite (nexec_aexec _ _ Hg Hr) in E. cbn [act_of aexec] in E.
    pose proof (cnt_perm _ _ (ins_perm (l_nodes s) target (key_of (opid_ts i)) (mk_nodes (opid_ts i) 0 vs) Htg)) as P. rewrite <- E, cnt_app in P.
    assert (CN : cnt (mk_nodes (opid_ts i) 0 vs) = Z.of_nat (length vs)) by (unfold cnt; rewrite vals_mk_nodes; reflexivity).
    rewrite CN in P. clear E CN.
    unfold l_insert_remote in *. destruct (if ts_eqb target oldest_ts then _ else _) as [l'|]; cbn [l_nodes l_size] in *; lia.
  - unfold l_delete_remote. pose proof (delete_go_size targets (opid_ts i) (l_nodes s) (l_size s) 0) as D.
    destruct (l_delete_remote_go _ _ _ _ _) as [l' sz]. cbn [fst snd l_nodes l_size] in *. lia.
  - unfold l_update_remote. cbn [l_nodes l_size]. rewrite update_go_size. exact Hs.
Qed.

Lemma exec_ok_invariants ops : forall s, lgood (l_nodes s) -> lsized s -> exec_ok lstate op l_exec_remote l_ready s ops ->
  lgood (l_nodes (fold_left l_exec_remote ops s)) /\ lsized (fold_left l_exec_remote ops s) /\
  sublist (ids (l_nodes s)) (ids (l_nodes (fold_left l_exec_remote ops s))).
Proof.
  induction ops as [|o ops IH]; intros s Hg Hs Hex; cbn [fold_left exec_ok] in *; [split; [exact Hg|split; [exact Hs|apply sublist_refl]]|].
  destruct Hex as [Hr Hex].
  assert (Hg' : lgood (l_nodes (l_exec_remote s o))) by (rewrite nodes_exec; apply lgood_step; assumption).
  destruct (IH _ Hg' (lsized_step s o Hg Hr Hs) Hex) as [I1 [I2 I3]]. split; [exact I1|]. split; [exact I2|].
  eapply sublist_trans; [|exact I3]. apply remote_keeps_order. unfold l_ready in Hr. destruct o; cbn in *; try reflexivity. contradiction.
Qed.

(* C01 for List: two executable orders of the same operations give the same state — nodes (hence values and view) and size *)
Theorem list_states_converge l1 l2 :
  NoDup (map loid l1) -> Permutation l1 l2 ->
  exec_ok lstate op l_exec_remote l_ready l_init l1 -> exec_ok lstate op l_exec_remote l_ready l_init l2 ->
  fold_left l_exec_remote l1 l_init = fold_left l_exec_remote l2 l_init.
Proof.
  intros Hnd Hp H1 H2. pose proof (list_convergence l1 l2 Hnd Hp H1 H2) as E.
  assert (S0 : lsized l_init) by reflexivity.
  destruct (exec_ok_invariants l1 l_init lgood_nil S0 H1) as [_ [S1 _]]. destruct (exec_ok_invariants l2 l_init lgood_nil S0 H2) as [_ [S2 _]].
  unfold lsized in S1, S2. destruct (fold_left l_exec_remote l1 l_init) as [n1 z1], (fold_left l_exec_remote l2 l_init) as [n2 z2].
  cbn [l_nodes l_size] in *. subst. reflexivity.
Qed.

(* C04: at every moment, on every replica, the elements two replicas both hold are in the same relative order: whatever
   each has executed so far (l1, l2), once both have executed everything (e1, e2 — any executable completions) they hold the
   same duplicate-free sequence of elements, and what each holds now is a subsequence of it *)
Theorem list_order_consistent l1 e1 l2 e2 :
  NoDup (map loid (l1 ++ e1)) -> Permutation (l1 ++ e1) (l2 ++ e2) ->
  exec_ok lstate op l_exec_remote l_ready l_init (l1 ++ e1) -> exec_ok lstate op l_exec_remote l_ready l_init (l2 ++ e2) ->
  exists F, NoDup F /\
    sublist (ids (l_nodes (fold_left l_exec_remote l1 l_init))) F /\
    sublist (ids (l_nodes (fold_left l_exec_remote l2 l_init))) F.
Proof.
  intros Hnd Hp H1 H2. pose proof (list_states_converge _ _ Hnd Hp H1 H2) as E.
  assert (Split : forall a b s, exec_ok lstate op l_exec_remote l_ready s (a ++ b) ->
            exec_ok lstate op l_exec_remote l_ready s a /\ exec_ok lstate op l_exec_remote l_ready (fold_left l_exec_remote a s) b).
  { induction a as [|o a IH]; intros b s Hx; cbn [app exec_ok fold_left] in *; [auto|]. destruct Hx as [Hr Hx]. destruct (IH b _ Hx). auto. }
  destruct (Split l1 e1 l_init H1) as [A1 B1]. destruct (Split l2 e2 l_init H2) as [A2 B2].
  assert (S0 : lsized l_init) by reflexivity.
  destruct (exec_ok_invariants l1 l_init lgood_nil S0 A1) as [G1 [Z1 _]]. destruct (exec_ok_invariants l2 l_init lgood_nil S0 A2) as [G2 [Z2 _]].
  destruct (exec_ok_invariants e1 _ G1 Z1 B1) as [[GF _] [_ U1]]. destruct (exec_ok_invariants e2 _ G2 Z2 B2) as [_ [_ U2]].
  rewrite <- fold_left_app in GF, U1, U2. exists (ids (l_nodes (fold_left l_exec_remote (l1 ++ e1) l_init))).
  split; [exact GF|]. split; [exact U1|]. rewrite E. exact U2.
Qed.

(* C02 for concurrent inserts: two batches inserted at the same place (what follows the target is older than both) end
   up ordered by timestamp, the greater first, whichever is executed first *)
Lemma concurrent_blocks T N1 N2 k1 k2 :
  klt k2 k1 = true -> Forall (fun n => kx n = k1) N1 -> Forall (fun n => kx n = k2) N2 -> stops T k1 -> stops T k2 ->
  blk (blk T k1 N1) k2 N2 = N1 ++ N2 ++ T /\ blk (blk T k2 N2) k1 N1 = N1 ++ N2 ++ T.
Proof.
  intros L H1 H2 S1 S2. split.
  - rewrite (blk_stop T k1 N1 S1), (blk_skip N1 T k2 N2) by (eapply Forall_impl; [|exact H1]; cbn; intros n ->; exact L).
    rewrite (blk_stop T k2 N2 S2). reflexivity.
  - rewrite (blk_stop T k2 N2 S2). apply blk_stop. destruct N2 as [|n N2']; [exact S1|]. cbn. apply Forall_inv in H2. rewrite H2. apply klt_asym. exact L.
Qed.

Theorem concurrent_inserts_by_timestamp T t1 t2 vs1 vs2 :
  ts_bounded t1 -> ts_bounded t2 -> bnodes T -> klt (key_of t2) (key_of t1) = true ->
  stops T (key_of t1) -> stops T (key_of t2) ->
  let N1 := mk_nodes t1 0 vs1 in let N2 := mk_nodes t2 0 vs2 in
  ins_many (ins_many T N1) N2 = N1 ++ N2 ++ T /\ ins_many (ins_many T N2) N1 = N1 ++ N2 ++ T.
Proof.
  intros B1 B2 BT L S1 S2 N1 N2.
  destruct (mk_nodes_new t1 vs1 B1) as [F1 _]. destruct (mk_nodes_new t2 vs2 B2) as [F2 _]. fold N1 in F1. fold N2 in F2.
  assert (G1 : Forall (fun n => ts_bounded (n_t n) /\ key_of (n_t n) = key_of t1) N1) by (eapply Forall_impl; [|exact F1]; cbn; tauto).
  assert (G2 : Forall (fun n => ts_bounded (n_t n) /\ key_of (n_t n) = key_of t2) N2) by (eapply Forall_impl; [|exact F2]; cbn; tauto).
  assert (K1 : Forall (fun n => kx n = key_of t1) N1) by (eapply Forall_impl; [|exact F1]; cbn; tauto).
  assert (K2 : Forall (fun n => kx n = key_of t2) N2) by (eapply Forall_impl; [|exact F2]; cbn; tauto).
  assert (BN : forall k N, Forall (fun n => kx n = k /\ key_of (n_t n) = k /\ ts_bounded (n_o n) /\ ts_bounded (n_t n)) N -> bnodes (blk T k N)).
  { intros k N HN. unfold bnodes. eapply Permutation_Forall; [apply Permutation_sym, blk_perm|]. apply Forall_app. split; [|exact BT].
    eapply Forall_impl; [|exact HN]. cbn. tauto. }
  rewrite (ins_many_blk _ N1 G1 T BT), (ins_many_blk _ N2 G2 T BT).
  rewrite (ins_many_blk _ N2 G2 _ (BN _ _ F1)), (ins_many_blk _ N1 G1 _ (BN _ _ F2)).
  apply concurrent_blocks; assumption.
Qed.
