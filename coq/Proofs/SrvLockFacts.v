(* C12: the server's per-datatype lock (Model/SrvLock.v) under every schedule. *)
From Coq Require Import List Arith Bool Lia.
From Orda.Model Require Import SrvLock.
Import ListNotations.

(* ---------- commands of different datatypes commute: two executions with the same per-key order give the same store ---------- *)
Section Trace.
  Variable A D : Type.
  Variable key : A -> nat.
  Variable run : D -> A -> D.
  Hypothesis commute : forall a b d, key a <> key b -> run (run d a) b = run (run d b) a.

  Definition proj (k : nat) (l : list A) : list A := filter (fun a => Nat.eqb (key a) k) l.

  Lemma proj_cons k a l : proj k (a :: l) = if Nat.eqb (key a) k then a :: proj k l else proj k l.
  Proof. reflexivity. Qed.
  Lemma proj_app k l1 l2 : proj k (l1 ++ l2) = proj k l1 ++ proj k l2.
  Proof. apply filter_app. Qed.

  (* the first element of key k in l *)
  Lemma split_first k (l : list A) a r : proj k l = a :: r ->
    exists pre post, l = pre ++ a :: post /\ proj k pre = [] /\ proj k post = r.
  Proof.
    induction l as [|x l IH]; cbn; [discriminate|]. destruct (Nat.eqb_spec (key x) k) as [E|E].
    - intros [= <- <-]. exists [], l. repeat split.
    - intros H. destruct (IH H) as [pre [post [E1 [E2 E3]]]]. exists (x :: pre), post. cbn.
      destruct (Nat.eqb_spec (key x) k); [contradiction|]. rewrite E1. repeat split; auto.
  Qed.

  Lemma move_front (a : A) : forall pre d, (forall x, In x pre -> key x <> key a) ->
    fold_left run (pre ++ [a]) d = fold_left run (a :: pre) d.
  Proof.
    induction pre as [|x pre IH]; intros d H; [reflexivity|]. cbn [app fold_left].
    rewrite IH by (intros y Hy; apply H; right; exact Hy). cbn [fold_left].
    rewrite commute by (apply H; left; reflexivity). reflexivity.
  Qed.

  Lemma proj_nil_keys k l : proj k l = [] -> forall x, In x l -> key x <> k.
  Proof.
    intros H x Hx E. assert (In x (proj k l)) by (apply filter_In; split; [exact Hx|apply Nat.eqb_eq; exact E]).
    rewrite H in H0. destruct H0.
  Qed.

  Theorem same_projections_same_result : forall l1 l2 d,
    (forall k, proj k l1 = proj k l2) -> fold_left run l1 d = fold_left run l2 d.
  Proof.
    induction l1 as [|a l1 IH]; intros l2 d H.
    - destruct l2 as [|b l2]; [reflexivity|]. specialize (H (key b)). cbn in H. rewrite Nat.eqb_refl in H. discriminate.
    - pose proof (H (key a)) as Ha. cbn in Ha. rewrite Nat.eqb_refl in Ha. symmetry in Ha.
      destruct (split_first _ _ _ _ Ha) as [pre [post [E1 [E2 E3]]]]. subst l2.
      assert (S : fold_left run (pre ++ a :: post) d = fold_left run (a :: pre ++ post) d).
      { replace (pre ++ a :: post) with ((pre ++ [a]) ++ post) by (rewrite <- app_assoc; reflexivity).
        rewrite fold_left_app, move_front by (intros x Hx; apply (proj_nil_keys _ _ E2 x Hx)).
        change (a :: pre ++ post) with ((a :: pre) ++ post). rewrite fold_left_app. reflexivity. }
      rewrite S. cbn [fold_left]. apply IH. intros k. specialize (H k). rewrite proj_app in *. rewrite !proj_cons in H.
      destruct (Nat.eqb_spec (key a) k) as [E|E].
      + subst k. rewrite E2 in *. cbn [app] in *. injection H as H. exact H.
      + exact H.
  Qed.
End Trace.

Lemma updf_same {A} (f : nat -> A) t v : updf f t v t = v.
Proof. unfold updf. rewrite Nat.eqb_refl. reflexivity. Qed.
Lemma updf_other {A} (f : nat -> A) t v x : x <> t -> updf f t v x = f x.
Proof. unfold updf. intros H. destruct (Nat.eqb_spec x t); [contradiction|reflexivity]. Qed.

Lemma firstn_S_nth' {A} (l : list A) d : forall i, i < length l -> firstn (S i) l = firstn i l ++ [nth i l d].
Proof.
  induction l as [|a l IH]; intros i H; cbn in H; [lia|]. destruct i as [|i]; [reflexivity|].
  change (a :: firstn (S i) l = (a :: firstn i l) ++ [nth i l d]). rewrite IH by lia. reflexivity.
Qed.

Lemma nodup_snoc {A} (l : list A) x : NoDup l -> ~ In x l -> NoDup (l ++ [x]).
Proof.
  induction l as [|a l IH]; cbn; intros H Hn; [constructor; [intros []|constructor]|].
  inversion H as [|? ? Ha Hl]; subst. constructor.
  - intros Hin. apply in_app_or in Hin. destruct Hin as [Hin|[Hin|[]]]; [contradiction|]. apply Hn. left. symmetry. exact Hin.
  - apply IH; [exact Hl|]. intros Hx. apply Hn. right. exact Hx.
Qed.

Section SrvLockFacts.
  Variable D : Type.
  Variable exec : handler -> nat -> D -> D.
  Variable P : nat -> option handler.
  Variable d0 : D.

  Notation sstate := (sstate D).
  Notation sstep := (sstep D exec P).
  Notation key_of := (key_of P).
  Notation hbody := (hbody P).
  Definition ckey (c : nat * nat) : nat := key_of (fst c).
  Definition lproj (k : nat) (l : list (nat * nat)) : list (nat * nat) := proj (nat * nat) ckey k l.

  Definition in_cs (h : handler) (p : hpc) : Prop := (exists i, p = HCmd i /\ i < h_steps h) \/ p = HUnlock.
  Definition hprogress (h : handler) (p : hpc) : nat := match p with HCmd i => i | HUnlock => h_steps h | _ => 0 end.
  Definition partial (s : sstate) (k : nat) : list (nat * nat) :=
    match locks D s k with
    | Some t => match P t with Some h => firstn (hprogress h (hthr D s t)) (hbody t) | None => [] end
    | None => []
    end.
  Definition of_key (k : nat) (ts : list nat) : list nat := filter (fun t => Nat.eqb (key_of t) k) ts.

  Record SInv (s : sstate) : Prop := {
    s_holder : forall k t, locks D s k = Some t -> exists h, P t = Some h /\ h_key h = k /\ in_cs h (hthr D s t);
    s_cs : forall t h, P t = Some h -> in_cs h (hthr D s t) -> locks D s (h_key h) = Some t;
    s_db : db D s = run_log D exec P (hlog D s) d0;
    s_proj : forall k, lproj k (hlog D s) = flat_map hbody (of_key k (horder D s)) ++ partial s k;
    s_refused : forall t, (hthr D s t = HTry \/ hthr D s t = HAnswer false \/ In (t, false) (answered D s)) ->
                          forall i, ~ In (t, i) (hlog D s);
    s_answered : forall t b, In (t, b) (answered D s) -> hthr D s t = HDone;
    s_once : NoDup (map fst (answered D s));
    s_done : forall t h, P t = Some h -> hthr D s t = HDone -> exists b, In (t, b) (answered D s);
    s_served : forall t, In t (horder D s) -> hthr D s t = HAnswer true \/ In (t, true) (answered D s);
    s_bound : forall t h i, P t = Some h -> hthr D s t = HCmd i -> i < h_steps h;
    s_has : forall t, In t (horder D s) -> P t <> None
  }.

  Lemma sinv_init : SInv (sinit D d0).
  Proof.
    constructor; cbn; try discriminate; try contradiction; auto;
      try (intros t h _ [[i [E _]]|E]; discriminate); try constructor; try (intros; discriminate); try (intros t H; destruct H).
  Qed.

  Lemma hbody_some t h : P t = Some h -> hbody t = map (fun i => (t, i)) (seq 0 (h_steps h)).
  Proof. unfold SrvLock.hbody. intros ->. reflexivity. Qed.
  Lemma hbody_length t h : P t = Some h -> length (hbody t) = h_steps h.
  Proof. intros H. rewrite (hbody_some t h H), map_length, seq_length. reflexivity. Qed.
  Lemma hbody_nth t h i : P t = Some h -> i < h_steps h -> nth i (hbody t) (t, 0) = (t, i).
  Proof.
    intros H Hi. rewrite (hbody_some t h H). rewrite (map_nth (fun i => (t, i)) (seq 0 (h_steps h)) 0 i), seq_nth by exact Hi. reflexivity.
  Qed.
  Lemma key_of_some t h : P t = Some h -> key_of t = h_key h.
  Proof. unfold SrvLock.key_of. intros ->. reflexivity. Qed.

  Lemma lproj_app k l1 l2 : lproj k (l1 ++ l2) = lproj k l1 ++ lproj k l2.
  Proof. apply filter_app. Qed.
  Lemma of_key_app k l1 l2 : of_key k (l1 ++ l2) = of_key k l1 ++ of_key k l2.
  Proof. apply filter_app. Qed.

  Lemma in_cs_after_lock h : in_cs h (after_lock h).
  Proof.
    unfold after_lock. destruct (Nat.eqb_spec (h_steps h) 0); [right; reflexivity|left; exists 0; split; [reflexivity|lia]].
  Qed.
  Lemma progress_after_lock h : hprogress h (after_lock h) = 0.
  Proof. unfold after_lock. destruct (Nat.eqb_spec (h_steps h) 0); cbn; congruence. Qed.
  Lemma in_cs_after_cmd h i : i < h_steps h -> in_cs h (after_cmd h i).
  Proof.
    intros H. unfold after_cmd. destruct (Nat.ltb_spec (S i) (h_steps h)); [left; exists (S i); auto|right; reflexivity].
  Qed.
  Lemma progress_after_cmd h i : i < h_steps h -> hprogress h (after_cmd h i) = S i.
  Proof. intros H. unfold after_cmd. destruct (Nat.ltb_spec (S i) (h_steps h)); cbn; lia. Qed.

  Ltac other x t := destruct (Nat.eq_dec x t) as [->|?]; [rewrite ?updf_same in *|rewrite ?updf_other in * by assumption].

  (* TryLock succeeds *)
  Lemma step_acquire s t h : SInv s -> P t = Some h -> hthr D s t = HTry -> locks D s (h_key h) = None ->
    SInv (mkSstate D (updf (locks D s) (h_key h) (Some t)) (db D s) (updf (hthr D s) t (after_lock h)) (hlog D s) (horder D s) (answered D s)).
  Proof.
    intros [I1 I2 I3 I4 I5 I6 I7 I8 I9 I10 I11] HP Ht Hl.
    assert (Hnot : forall k t', locks D s k = Some t' -> t' <> t).
    { intros k t' H E. subst t'. destruct (I1 k t H) as [h' [P' [_ C]]]. rewrite Ht in C. destruct C as [[i [C _]]|C]; discriminate. }
    constructor; cbn [locks hthr db hlog horder answered].
    - intros k t' H. destruct (Nat.eq_dec k (h_key h)) as [->|Nk].
      + rewrite updf_same in H. injection H as <-. exists h. rewrite updf_same. repeat split; auto. apply in_cs_after_lock.
      + rewrite updf_other in H by exact Nk. rewrite updf_other by (eapply Hnot; eauto). apply I1, H.
    - intros t' h' P' C. destruct (Nat.eq_dec t' t) as [->|Nt].
      + rewrite HP in P'. injection P' as <-. apply updf_same.
      + rewrite updf_other in C by exact Nt. pose proof (I2 t' h' P' C) as L.
        rewrite updf_other; [exact L|]. intros E. rewrite E, Hl in L. discriminate.
    - exact I3.
    - intros k. rewrite I4. f_equal. unfold partial. cbn [locks hthr].
      destruct (Nat.eq_dec k (h_key h)) as [->|Nk].
      + rewrite updf_same, Hl, HP, updf_same, progress_after_lock. reflexivity.
      + rewrite updf_other by exact Nk. destruct (locks D s k) as [t'|] eqn:E; [|reflexivity].
        rewrite updf_other by (eapply Hnot; eauto). reflexivity.
    - intros t' H. apply I5. destruct (Nat.eq_dec t' t) as [->|Nt].
      + rewrite updf_same in H. destruct H as [H|[H|H]]; [| |right; right; exact H].
        * left. exact Ht.
        * left. exact Ht.
      + rewrite updf_other in H by exact Nt. exact H.
    - intros t' b H. pose proof (I6 t' b H) as E. destruct (Nat.eq_dec t' t) as [->|Nt]; [congruence|rewrite updf_other by exact Nt; exact E].
    - exact I7.
    - intros t' h' P' E. destruct (Nat.eq_dec t' t) as [->|Nt].
      + rewrite updf_same in E. unfold after_lock in E. destruct (h_steps h =? 0); discriminate.
      + rewrite updf_other in E by exact Nt. eapply I8; eauto.
    - intros t' H. destruct (I9 t' H) as [E|E]; [|right; exact E]. destruct (Nat.eq_dec t' t) as [->|Nt]; [congruence|].
      left. rewrite updf_other by exact Nt. exact E.
    - intros t' h' i P' E. destruct (Nat.eq_dec t' t) as [->|Nt].
      + rewrite updf_same in E. rewrite HP in P'. injection P' as <-. unfold after_lock in E.
        destruct (Nat.eqb_spec (h_steps h) 0); [discriminate|]. injection E as <-. lia.
      + rewrite updf_other in E by exact Nt. eapply I10; eauto.
    - exact I11.
  Qed.

  (* one storage command *)
  Lemma step_cmd s t h i : SInv s -> P t = Some h -> hthr D s t = HCmd i ->
    SInv (mkSstate D (locks D s) (exec h i (db D s)) (updf (hthr D s) t (after_cmd h i)) (hlog D s ++ [(t, i)]) (horder D s) (answered D s)).
  Proof.
    intros [I1 I2 I3 I4 I5 I6 I7 I8 I9 I10 I11] HP Ht.
    pose proof (I10 t h i HP Ht) as Hi.
    assert (Hcs : in_cs h (hthr D s t)) by (left; exists i; auto).
    pose proof (I2 t h HP Hcs) as Hl.
    constructor; cbn [locks hthr db hlog horder answered].
    - intros k t' H. destruct (I1 k t' H) as [h' [P' [K' C']]]. exists h'. repeat split; auto.
      destruct (Nat.eq_dec t' t) as [->|Nt]; [|rewrite updf_other by exact Nt; exact C'].
      rewrite updf_same. rewrite HP in P'. injection P' as <-. apply in_cs_after_cmd, Hi.
    - intros t' h' P' C. destruct (Nat.eq_dec t' t) as [->|Nt].
      + rewrite HP in P'. injection P' as <-. exact Hl.
      + rewrite updf_other in C by exact Nt. apply I2; auto.
    - unfold run_log. rewrite fold_left_app. cbn. unfold run_cmd at 1. cbn. rewrite HP. fold (run_log D exec P (hlog D s) d0). rewrite <- I3. reflexivity.
    - intros k. rewrite lproj_app, I4, <- app_assoc. f_equal. unfold partial. cbn [locks hthr].
      unfold lproj, proj. cbn [filter]. unfold ckey at 1. cbn [fst]. rewrite (key_of_some t h HP).
      destruct (Nat.eqb_spec (h_key h) k) as [E|E].
      + subst k. rewrite Hl, HP, updf_same, Ht. cbn [hprogress]. rewrite (progress_after_cmd h i Hi).
        rewrite (firstn_S_nth' (hbody t) (t, 0)) by (rewrite (hbody_length t h HP); exact Hi). rewrite (hbody_nth t h i HP Hi). reflexivity.
      + rewrite app_nil_r. destruct (locks D s k) as [t'|] eqn:El; [|reflexivity].
        assert (t' <> t). { intros ->. destruct (I1 k t El) as [h' [P' [K' _]]]. rewrite HP in P'. injection P' as <-. congruence. }
        rewrite updf_other by assumption. reflexivity.
    - intros t' H i' Hin. destruct (Nat.eq_dec t' t) as [->|Nt].
      + rewrite updf_same in H. destruct H as [H|[H|H]].
        * unfold after_cmd in H. destruct (S i <? h_steps h); discriminate.
        * unfold after_cmd in H. destruct (S i <? h_steps h); discriminate.
        * apply I6 in H. congruence.
      + rewrite updf_other in H by exact Nt. apply in_app_or in Hin. destruct Hin as [Hin|[Hin|[]]]; [apply (I5 t' H i' Hin)|congruence].
    - intros t' b H. pose proof (I6 t' b H) as E. destruct (Nat.eq_dec t' t) as [->|Nt]; [congruence|rewrite updf_other by exact Nt; exact E].
    - exact I7.
    - intros t' h' P' E. destruct (Nat.eq_dec t' t) as [->|Nt].
      + rewrite updf_same in E. unfold after_cmd in E. destruct (S i <? h_steps h); discriminate.
      + rewrite updf_other in E by exact Nt. eapply I8; eauto.
    - intros t' H. destruct (I9 t' H) as [E|E]; [|right; exact E]. destruct (Nat.eq_dec t' t) as [->|Nt]; [congruence|].
      left. rewrite updf_other by exact Nt. exact E.
    - intros t' h' i' P' E. destruct (Nat.eq_dec t' t) as [->|Nt].
      + rewrite updf_same in E. rewrite HP in P'. injection P' as <-. unfold after_cmd in E.
        destruct (Nat.ltb_spec (S i) (h_steps h)); [|discriminate]. injection E as <-. exact H.
      + rewrite updf_other in E by exact Nt. eapply I10; eauto.
    - exact I11.
  Qed.

  (* Unlock *)
  Lemma step_unlock s t h : SInv s -> P t = Some h -> hthr D s t = HUnlock ->
    SInv (mkSstate D (updf (locks D s) (h_key h) None) (db D s) (updf (hthr D s) t (HAnswer true)) (hlog D s) (horder D s ++ [t]) (answered D s)).
  Proof.
    intros [I1 I2 I3 I4 I5 I6 I7 I8 I9 I10 I11] HP Ht.
    assert (Hcs : in_cs h (hthr D s t)) by (right; exact Ht).
    pose proof (I2 t h HP Hcs) as Hl.
    assert (Hother : forall k t', k <> h_key h -> locks D s k = Some t' -> t' <> t).
    { intros k t' Nk H ->. destruct (I1 k t H) as [h' [P' [K' _]]]. rewrite HP in P'. injection P' as <-. congruence. }
    constructor; cbn [locks hthr db hlog horder answered].
    - intros k t' H. destruct (Nat.eq_dec k (h_key h)) as [->|Nk]; [rewrite updf_same in H; discriminate|].
      rewrite updf_other in H by exact Nk. rewrite updf_other by (eapply Hother; eauto). apply I1, H.
    - intros t' h' P' C. destruct (Nat.eq_dec t' t) as [->|Nt].
      + rewrite updf_same in C. destruct C as [[i [C _]]|C]; discriminate.
      + rewrite updf_other in C by exact Nt. pose proof (I2 t' h' P' C) as L.
        rewrite updf_other; [exact L|]. intros E. rewrite E, Hl in L. congruence.
    - exact I3.
    - intros k. rewrite I4, of_key_app, flat_map_app, <- app_assoc. f_equal. unfold partial. cbn [locks hthr].
      unfold of_key at 1. cbn [filter]. rewrite (key_of_some t h HP).
      destruct (Nat.eqb_spec (h_key h) k) as [E|E].
      + subst k. rewrite updf_same, Hl, HP, Ht. cbn [hprogress flat_map]. rewrite !app_nil_r.
        rewrite <- (hbody_length t h HP). apply firstn_all.
      + cbn [flat_map app]. rewrite updf_other by congruence. destruct (locks D s k) as [t'|] eqn:El; [|reflexivity].
        rewrite updf_other by (eapply Hother; eauto). reflexivity.
    - intros t' H. destruct (Nat.eq_dec t' t) as [->|Nt].
      + rewrite updf_same in H. destruct H as [H|[H|H]]; try discriminate. apply I6 in H. congruence.
      + rewrite updf_other in H by exact Nt. apply I5, H.
    - intros t' b H. pose proof (I6 t' b H) as E. destruct (Nat.eq_dec t' t) as [->|Nt]; [congruence|rewrite updf_other by exact Nt; exact E].
    - exact I7.
    - intros t' h' P' E. destruct (Nat.eq_dec t' t) as [->|Nt]; [rewrite updf_same in E; discriminate|].
      rewrite updf_other in E by exact Nt. eapply I8; eauto.
    - intros t' H. apply in_app_or in H. destruct (Nat.eq_dec t' t) as [->|Nt]; [left; apply updf_same|].
      rewrite updf_other by exact Nt. destruct H as [H|[H|[]]]; [apply I9, H|congruence].
    - intros t' h' i' P' E. destruct (Nat.eq_dec t' t) as [->|Nt]; [rewrite updf_same in E; discriminate|].
      rewrite updf_other in E by exact Nt. eapply I10; eauto.
    - intros t' H. apply in_app_or in H. destruct H as [H|[<-|[]]]; [apply I11, H|congruence].
  Qed.

  (* the answer is sent *)
  Lemma step_answer s t h ok : SInv s -> P t = Some h -> hthr D s t = HAnswer ok ->
    SInv (mkSstate D (locks D s) (db D s) (updf (hthr D s) t HDone) (hlog D s) (horder D s) (answered D s ++ [(t, ok)])).
  Proof.
    intros [I1 I2 I3 I4 I5 I6 I7 I8 I9 I10 I11] HP Ht.
    assert (Hnl : forall k, locks D s k <> Some t).
    { intros k H. destruct (I1 k t H) as [h' [_ [_ C]]]. rewrite Ht in C. destruct C as [[i [C _]]|C]; discriminate. }
    constructor; cbn [locks hthr db hlog horder answered].
    - intros k t' H. assert (t' <> t) by (intros ->; apply (Hnl k H)). rewrite updf_other by assumption. apply I1, H.
    - intros t' h' P' C. destruct (Nat.eq_dec t' t) as [->|Nt].
      + rewrite updf_same in C. destruct C as [[i [C _]]|C]; discriminate.
      + rewrite updf_other in C by exact Nt. apply I2; auto.
    - exact I3.
    - intros k. rewrite I4. f_equal. unfold partial. cbn [locks hthr]. destruct (locks D s k) as [t'|] eqn:El; [|reflexivity].
      assert (t' <> t) by (intros ->; apply (Hnl k El)). rewrite updf_other by assumption. reflexivity.
    - intros t' H. destruct (Nat.eq_dec t' t) as [->|Nt].
      + rewrite updf_same in H. destruct H as [H|[H|H]]; try discriminate. apply in_app_or in H. destruct H as [H|[H|[]]].
        * apply I6 in H. congruence.
        * injection H as E. subst ok. apply I5. right. left. exact Ht.
      + rewrite updf_other in H by exact Nt. apply I5. destruct H as [H|[H|H]]; auto.
        apply in_app_or in H. destruct H as [H|[H|[]]]; [auto|congruence].
    - intros t' b H. apply in_app_or in H. destruct (Nat.eq_dec t' t) as [->|Nt]; [apply updf_same|].
      rewrite updf_other by exact Nt. destruct H as [H|[H|[]]]; [eapply I6; eauto|congruence].
    - rewrite map_app. cbn. apply nodup_snoc; [exact I7|].
      intros H. apply in_map_iff in H. destruct H as [[t' b] [E H]]. cbn in E. subst t'. apply I6 in H. congruence.
    - intros t' h' P' E. destruct (Nat.eq_dec t' t) as [->|Nt].
      + exists ok. apply in_or_app. right. left. reflexivity.
      + rewrite updf_other in E by exact Nt. destruct (I8 t' h' P' E) as [b Hb]. exists b. apply in_or_app. left. exact Hb.
    - intros t' H. destruct (I9 t' H) as [E|E].
      + destruct (Nat.eq_dec t' t) as [->|Nt].
        * right. rewrite Ht in E. injection E as ->. apply in_or_app. right. left. reflexivity.
        * left. rewrite updf_other by exact Nt. exact E.
      + right. apply in_or_app. left. exact E.
    - intros t' h' i' P' E. destruct (Nat.eq_dec t' t) as [->|Nt]; [rewrite updf_same in E; discriminate|].
      rewrite updf_other in E by exact Nt. eapply I10; eauto.
    - exact I11.
  Qed.

  (* the lease runs out while waiting: the pack is refused without touching anything *)
  Lemma step_giveup s t h : SInv s -> P t = Some h -> hthr D s t = HTry ->
    SInv (mkSstate D (locks D s) (db D s) (updf (hthr D s) t (HAnswer false)) (hlog D s) (horder D s) (answered D s)).
  Proof.
    intros [I1 I2 I3 I4 I5 I6 I7 I8 I9 I10 I11] HP Ht.
    assert (Hnl : forall k, locks D s k <> Some t).
    { intros k H. destruct (I1 k t H) as [h' [_ [_ C]]]. rewrite Ht in C. destruct C as [[i [C _]]|C]; discriminate. }
    constructor; cbn [locks hthr db hlog horder answered].
    - intros k t' H. assert (t' <> t) by (intros ->; apply (Hnl k H)). rewrite updf_other by assumption. apply I1, H.
    - intros t' h' P' C. destruct (Nat.eq_dec t' t) as [->|Nt].
      + rewrite updf_same in C. destruct C as [[i [C _]]|C]; discriminate.
      + rewrite updf_other in C by exact Nt. apply I2; auto.
    - exact I3.
    - intros k. rewrite I4. f_equal. unfold partial. cbn [locks hthr]. destruct (locks D s k) as [t'|] eqn:El; [|reflexivity].
      assert (t' <> t) by (intros ->; apply (Hnl k El)). rewrite updf_other by assumption. reflexivity.
    - intros t' H. destruct (Nat.eq_dec t' t) as [->|Nt].
      + apply I5. left. exact Ht.
      + rewrite updf_other in H by exact Nt. apply I5, H.
    - intros t' b H. pose proof (I6 t' b H) as E. destruct (Nat.eq_dec t' t) as [->|Nt]; [congruence|rewrite updf_other by exact Nt; exact E].
    - exact I7.
    - intros t' h' P' E. destruct (Nat.eq_dec t' t) as [->|Nt]; [rewrite updf_same in E; discriminate|].
      rewrite updf_other in E by exact Nt. eapply I8; eauto.
    - intros t' H. destruct (I9 t' H) as [E|E]; [|right; exact E]. destruct (Nat.eq_dec t' t) as [->|Nt]; [congruence|].
      left. rewrite updf_other by exact Nt. exact E.
    - intros t' h' i' P' E. destruct (Nat.eq_dec t' t) as [->|Nt]; [rewrite updf_same in E; discriminate|].
      rewrite updf_other in E by exact Nt. eapply I10; eauto.
    - exact I11.
  Qed.

  Theorem sinv_step m s s' : SInv s -> sstep m s = Some s' -> SInv s'.
  Proof.
    intros HI Hs. destruct m as [t|t]; cbn [SrvLock.sstep] in Hs; destruct (P t) as [h|] eqn:HP; try discriminate.
    - destruct (hthr D s t) eqn:Ht; try discriminate.
      + destruct (locks D s (h_key h)) eqn:Hl; [discriminate|]. injection Hs as <-. apply step_acquire; auto.
      + injection Hs as <-. apply step_cmd; auto.
      + injection Hs as <-. apply step_unlock; auto.
      + injection Hs as <-. eapply step_answer; eauto.
    - destruct (hthr D s t) eqn:Ht; try discriminate. destruct (locks D s (h_key h)); [|discriminate].
      injection Hs as <-. eapply step_giveup; eauto.
  Qed.

  Theorem sinv_run ms : forall s, SInv s -> SInv (srun_moves D exec P s ms).
  Proof.
    induction ms as [|m ms IH]; intros s H; cbn; [exact H|].
    apply IH. destruct (sstep m s) as [s'|] eqn:E; [eapply sinv_step; eauto|exact H].
  Qed.

  (* ---- what the invariant says ---- *)

  (* two packs of the same datatype are never in their critical sections at the same time *)
  Theorem lock_excludes s t1 t2 h1 h2 : SInv s -> P t1 = Some h1 -> P t2 = Some h2 -> h_key h1 = h_key h2 ->
    in_cs h1 (hthr D s t1) -> in_cs h2 (hthr D s t2) -> t1 = t2.
  Proof.
    intros HI P1 P2 K C1 C2. pose proof (s_cs s HI t1 h1 P1 C1) as L1. pose proof (s_cs s HI t2 h2 P2 C2) as L2.
    rewrite K in L1. congruence.
  Qed.

  (* a pack that was refused because its lock could not be obtained issued no storage command *)
  Theorem refused_issued_nothing s t : SInv s -> In (t, false) (answered D s) -> forall i, ~ In (t, i) (hlog D s).
  Proof. intros HI H. apply (s_refused s HI). right. right. exact H. Qed.

  (* nobody waits for ever: a pack that has not been answered can move, or the holder of its lock can *)
  Theorem some_move_enabled s t h : SInv s -> P t = Some h -> hthr D s t <> HDone ->
    sstep (Step t) s <> None \/ exists t', locks D s (h_key h) = Some t' /\ t' <> t /\ sstep (Step t') s <> None.
  Proof.
    intros HI HP Hn. destruct (hthr D s t) eqn:Ht; try congruence.
    - destruct (locks D s (h_key h)) as [t'|] eqn:El.
      + right. exists t'. split; [reflexivity|]. destruct (s_holder s HI _ _ El) as [h' [P' [K' C']]].
        split; [intros ->; rewrite Ht in C'; destruct C' as [[i [C _]]|C]; discriminate|].
        cbn. rewrite P'. destruct C' as [[i [-> _]]| ->]; discriminate.
      + left. cbn. rewrite HP, Ht, El. discriminate.
    - left. cbn. rewrite HP, Ht. discriminate.
    - left. cbn. rewrite HP, Ht. discriminate.
    - left. cbn. rewrite HP, Ht. discriminate.
  Qed.

  Lemma lproj_hbody k t : lproj k (hbody t) = if Nat.eqb (key_of t) k then hbody t else [].
  Proof.
    unfold SrvLock.hbody. destruct (P t) as [h|] eqn:HP; [|destruct (key_of t =? k); reflexivity].
    unfold lproj, proj. induction (seq 0 (h_steps h)) as [|i l IH]; cbn [map filter]; [destruct (key_of t =? k); reflexivity|].
    unfold ckey at 1. cbn [fst]. rewrite IH. destruct (key_of t =? k); reflexivity.
  Qed.
  Lemma lproj_flat_map k ts : lproj k (flat_map hbody ts) = flat_map hbody (of_key k ts).
  Proof.
    induction ts as [|t ts IH]; [reflexivity|]. cbn [flat_map]. rewrite lproj_app, IH, lproj_hbody. unfold of_key. cbn [filter].
    destruct (key_of t =? k); reflexivity.
  Qed.

  (* storage commands of packs of different datatypes commute *)
  Definition commands_commute : Prop :=
    forall t1 t2 h1 h2 i j d, P t1 = Some h1 -> P t2 = Some h2 -> h_key h1 <> h_key h2 ->
      exec h2 j (exec h1 i d) = exec h1 i (exec h2 j d).


  Lemma run_cmd_commute : commands_commute ->
    forall a b d, ckey a <> ckey b -> run_cmd D exec P (run_cmd D exec P d a) b = run_cmd D exec P (run_cmd D exec P d b) a.
  Proof.
    intros Hc [t1 i] [t2 j] d Hk. unfold run_cmd, ckey, SrvLock.key_of in *. cbn [fst snd] in *.
    destruct (P t1) as [h1|] eqn:P1; destruct (P t2) as [h2|] eqn:P2; try reflexivity.
    apply (Hc t1 t2 h1 h2 i j d P1 P2 Hk).
  Qed.

  (* when every pack has been answered: every pack was answered exactly once; the served ones ran all their commands,
     the refused ones none; and the store is what serving the served packs one at a time, in the order in which they
     released their locks, produces *)
  Theorem equals_one_at_a_time s : SInv s -> commands_commute ->
    (forall t h, P t = Some h -> hthr D s t = HDone) ->
    (forall t h, P t = Some h -> exists b, In (t, b) (answered D s)) /\
    NoDup (map fst (answered D s)) /\
    (forall t, In t (horder D s) -> In (t, true) (answered D s)) /\
    (forall t i, In (t, false) (answered D s) -> ~ In (t, i) (hlog D s)) /\
    db D s = one_at_a_time D exec P (horder D s) d0.
  Proof.
    intros HI Hc Hd. split; [|split; [|split; [|split]]].
    - intros t h HP. eapply (s_done s HI); eauto.
    - apply (s_once s HI).
    - intros t Ht. destruct (s_served s HI t Ht) as [E|E]; [|exact E].
      exfalso. destruct (P t) as [h|] eqn:HP; [rewrite (Hd t h HP) in E; discriminate|]. apply (s_has s HI t Ht HP).
    - intros t i H. apply (refused_issued_nothing s t HI H).
    - rewrite (s_db s HI). unfold one_at_a_time, run_log.
      apply (same_projections_same_result (nat * nat) D ckey (run_cmd D exec P) (run_cmd_commute Hc)).
      intros k. fold (lproj k (hlog D s)). fold (lproj k (flat_map hbody (horder D s))).
      rewrite (s_proj s HI k), lproj_flat_map.
      assert (Z : partial s k = []).
      { unfold partial. destruct (locks D s k) as [t|] eqn:El; [|reflexivity].
        destruct (s_holder s HI k t El) as [h [HP [_ C]]]. rewrite (Hd t h HP) in C. destruct C as [[i [C _]]|C]; discriminate. }
      rewrite Z, app_nil_r. reflexivity.
  Qed.
End SrvLockFacts.

(* ---- stated for every schedule ---- *)
Section SrvLockTheorems.
  Variable D : Type.
  Variable exec : handler -> nat -> D -> D.
  Variable P : nat -> option handler.

  Theorem server_lock_excludes d0 ms t1 t2 h1 h2 :
    let s := srun_moves D exec P (sinit D d0) ms in
    P t1 = Some h1 -> P t2 = Some h2 -> h_key h1 = h_key h2 -> in_cs h1 (hthr D s t1) -> in_cs h2 (hthr D s t2) -> t1 = t2.
  Proof. intros s. apply (lock_excludes D exec P d0 s). apply sinv_run, sinv_init. Qed.

  Theorem server_no_starvation d0 ms t h :
    let s := srun_moves D exec P (sinit D d0) ms in
    P t = Some h -> hthr D s t <> HDone ->
    sstep D exec P (Step t) s <> None \/ exists t', locks D s (h_key h) = Some t' /\ t' <> t /\ sstep D exec P (Step t') s <> None.
  Proof. intros s. apply (some_move_enabled D exec P d0 s). apply sinv_run, sinv_init. Qed.

  Theorem server_serializable d0 ms :
    let s := srun_moves D exec P (sinit D d0) ms in
    commands_commute D exec P ->
    (forall t h, P t = Some h -> hthr D s t = HDone) ->
    (forall t h, P t = Some h -> exists b, In (t, b) (answered D s)) /\
    NoDup (map fst (answered D s)) /\
    (forall t, In t (horder D s) -> In (t, true) (answered D s)) /\
    (forall t i, In (t, false) (answered D s) -> ~ In (t, i) (hlog D s)) /\
    db D s = one_at_a_time D exec P (horder D s) d0.
  Proof. intros s. apply (equals_one_at_a_time D exec P d0 s). apply sinv_run, sinv_init. Qed.
End SrvLockTheorems.
