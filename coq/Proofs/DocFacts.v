(* The Document kernel (Model/Doc.v): instances of the generic datatype facts, and the JSON-pointer codec. *)
From Coq Require Import List NArith ZArith Bool Lia.
From Orda.Model Require Import Base Time Ops Counter Map List Datatype CheckCrdt Doc CheckDoc.
From Orda.Proofs Require Import DatatypeFacts KernelInst.
Import ListNotations.
Open Scope N_scope.

(* ---------- every local call emits one operation carrying the identifier it was given, never a TRANSACTION ---------- *)
Lemma doc_local_id s c i s' o : doc_local s c i = Some (s', o) -> op_id o = i /\ is_tx o = false.
Proof.
  unfold doc_local. destruct (resolve s (call_path c)) as [j|]; [|discriminate]. destruct c.
  - destruct (create (opid_ts i) v 0). destruct (on_node s (jc j) _); [|discriminate]. cbn. intros [= _ <-]. auto.
  - destruct (on_node s (jc j) _); [|discriminate]. cbn. intros [= _ <-]. auto.
  - destruct j; try discriminate. destruct (create_many (opid_ts i) vs 0). destruct (ains_local _ _ _) as [[? ?]|]; [|discriminate].
    destruct (on_node s _ _); [|discriminate]. cbn. intros [= _ <-]. auto.
  - destruct j; try discriminate. destruct (adel_local _ _ _ _ _) as [[? ?]|]; [|discriminate].
    destruct (on_node s _ _); [|discriminate]. cbn. intros [= _ <-]. auto.
  - destruct j; try discriminate. destruct (aupd_local _ _ _ _ _) as [[? ?]|]; [|discriminate].
    destruct (on_node s _ _); [|discriminate]. cbn. intros [= _ <-]. auto.
Qed.
Lemma d_local_id s u i s' o r : d_local' s u i = LOk s' o r -> op_id o = i.
Proof.
  unfold d_local', u_local. destruct u as [c|p].
  - destruct (doc_local s c i) as [[? ?]|] eqn:E; [|discriminate]. intros [= _ <- _]. apply (doc_local_id _ _ _ _ _ E).
  - destruct (patch_call s p) as [c|]; [|discriminate]. destruct (doc_local s c i) as [[? ?]|] eqn:E; [|discriminate].
    intros [= _ <- _]. apply (doc_local_id _ _ _ _ _ E).
Qed.
Lemma d_local_not_tx s u i s' o r : d_local' s u i = LOk s' o r -> is_tx o = false.
Proof.
  unfold d_local', u_local. destruct u as [c|p].
  - destruct (doc_local s c i) as [[? ?]|] eqn:E; [|discriminate]. intros [= _ <- _]. apply (doc_local_id _ _ _ _ _ E).
  - destruct (patch_call s p) as [c|]; [|discriminate]. destruct (doc_local s c i) as [[? ?]|] eqn:E; [|discriminate].
    intros [= _ <- _]. apply (doc_local_id _ _ _ _ _ E).
Qed.

Definition d_run := drun jt ucall unit jt u_validate d_local' doc_remote id_ id_.
Definition d_tx := transaction jt ucall unit jt u_validate d_local' doc_remote id_ id_.
Definition d_new := dt_create jt ucall jt doc_init id_.

(* C09 / C19: an aborted Document transaction — a failed Patch included — restores the whole datatype *)
Theorem doc_abort_restores c es d tag cs : d_run (d_new c) es = Some d ->
  let d' := fst (d_tx d tag cs true) in
  d_snap d' = d_snap d /\ d_oid d' = d_oid d /\ d_buf d' = d_buf d /\ d_cp d' = d_cp d.
Proof. apply abort_restores_anywhere; [apply id_import_export|apply d_local_id|apply d_local_not_tx]. Qed.

(* C19: a Patch of several operations is queued as ONE contiguous unit headed by its length *)
Theorem doc_commit_is_unit c es d tag cs : d_run (d_new c) es = Some d ->
  let '(d', rs) := d_tx d tag cs false in
  Forall (fun r => r <> Panicked) rs ->
  exists ops, d_buf d' = d_buf d ++ OTx (opid_next (d_oid d)) tag (Z.of_nat (S (length ops))) :: ops /\
              Forall (fun o => is_tx o = false) ops.
Proof.
  intros Hrun.
  assert (Hi : RbInv jt ucall unit jt d_local' doc_remote id_ d).
  { eapply run_inv; [apply id_import_export|apply d_local_id|apply d_local_not_tx| |exact Hrun].
    apply create_inv. apply id_import_export. }
  pose proof (commit_is_unit jt ucall unit jt u_validate d_local' doc_remote id_ id_ d_local_id d_local_not_tx d tag cs Hi) as H.
  unfold d_tx. destruct (transaction _ _ _ _ _ _ _ _ _ d tag cs false) as [d' rs].
  intros Hf. destruct (H Hf) as [ops [H1 [H2 _]]]. exists ops. auto.
Qed.

(* ---------- the JSON pointer (RFC 6901) ---------- *)
(* how jsondiff renders one key *)
Fixpoint escape (s : str) : str :=
  match s with
  | [] => []
  | c :: r => if N.eqb c 126 then 126 :: 48 :: escape r else if N.eqb c 47 then 126 :: 49 :: escape r else c :: escape r
  end.
Fixpoint pointer (toks : list str) : str :=
  match toks with
  | [] => []
  | t :: r => 47 :: escape t ++ pointer r
  end.

Lemma unescape_cons_other c r : c <> 126 -> unescape (c :: r) = c :: unescape r.
Proof. intros H. cbn [unescape]. destruct (N.eqb_spec c 126); [contradiction|reflexivity]. Qed.

Lemma unescape_escape s : unescape (escape s) = s.
Proof.
  induction s as [|c r IH]; [reflexivity|]. cbn [escape].
  destruct (N.eqb_spec c 126) as [->|N1].
  - cbn [unescape]. cbn. rewrite IH. reflexivity.
  - destruct (N.eqb_spec c 47) as [->|N2].
    + cbn [unescape]. cbn. rewrite IH. reflexivity.
    + rewrite unescape_cons_other by exact N1. rewrite IH. reflexivity.
Qed.

Lemma escape_no_slash s : ~ In 47 (escape s).
Proof.
  induction s as [|c r IH]; cbn [escape]; [intros []|].
  destruct (N.eqb_spec c 126) as [->|N1]; [intros [H|[H|H]]; [discriminate|discriminate|exact (IH H)]|].
  destruct (N.eqb_spec c 47) as [->|N2]; [intros [H|[H|H]]; [discriminate|discriminate|exact (IH H)]|].
  intros [H|H]; [congruence|exact (IH H)].
Qed.
Lemma split_no_slash t : forall rest cur, ~ In 47 t -> split_slash (t ++ rest) cur = split_slash rest (rev t ++ cur).
Proof.
  induction t as [|c t IH]; intros rest cur H; [reflexivity|]. cbn [app split_slash].
  destruct (N.eqb_spec c 47) as [->|N]; [exfalso; apply H; left; reflexivity|].
  rewrite IH by (intros Hin; apply H; right; exact Hin). cbn [rev]. rewrite <- app_assoc. reflexivity.
Qed.
Lemma split_pointer toks : forall cur, split_slash (pointer toks) cur = rev cur :: map escape toks.
Proof.
  induction toks as [|t r IH]; intros cur; [reflexivity|]. cbn [pointer split_slash]. cbn [N.eqb Pos.eqb]. f_equal.
  rewrite split_no_slash by apply escape_no_slash. rewrite IH, app_nil_r, rev_involutive. reflexivity.
Qed.

(* C19: whatever the keys are — '~', '/', any code points — the path jsondiff renders for the tokens [toks] is read back
   by the patch resolution as exactly these tokens (after the empty text before the first '/') *)
Theorem pointer_roundtrip toks : map unescape (split_slash (pointer toks) []) = [] :: toks.
Proof.
  rewrite split_pointer. cbn [rev map]. f_equal. rewrite map_map. rewrite <- (map_id toks) at 2. apply map_ext. apply unescape_escape.
Qed.

(* a patch operation acts exactly like the corresponding call of the API on the container its path names: by definition
   of [u_local]; spelled out for the record *)
Theorem patch_is_api_call s p c i : patch_call s p = Some c -> u_local s (UPatch p) i = doc_local s c i /\ u_validate s (UPatch p) = doc_validate s c.
Proof. intros H. cbn. rewrite H. auto. Qed.
