(* The Document kernel (Model/Doc.v): instances of the generic datatype facts, and the JSON-pointer codec. *)
From Coq Require Import List NArith ZArith Bool Lia.
From Orda.Model Require Import Base Time Ops Counter Map List Datatype CheckCrdt Doc CheckDoc.
From Orda.Proofs Require Import DatatypeFacts KernelInst CodecFacts.
Import ListNotations.
Open Scope N_scope.

(* ---------- every local call emits one operation carrying the identifier it was given, never a TRANSACTION ---------- *)
Lemma doc_local_id s c i s' o : doc_local s c i = Some (s', o) -> op_id o = i /\ is_tx o = false.
Proof.
  unfold doc_local. destruct (resolve s (call_path c)) as [j|]; [|discriminate]. destruct c.
  - destruct (create (opid_ts i) v 0). destruct (on_node s (jc j) _); [|discriminate]. cbn. intros [= _ <-]. auto.
  - destruct (on_node s (jc j) _); [|discriminate]. cbn. intros [= _ <-]. auto.
  - destruct j; try discriminate. destruct (create_many (opid_ts i) vs 0). destruct (ains_local _ _ _) as [[? ?]|]; [|discriminate].
    destruct (on_node s _ _); [|discriminate]. cbn. intros [= _ <-]. auto.
  - destruct j; try discriminate. destruct (adel_local _ _ _ _ _) as [[? ?]|]; [|discriminate].
    destruct (on_node s _ _); [|discriminate]. cbn. intros [= _ <-]. auto.
  - destruct j; try discriminate. destruct (aupd_local _ _ _ _ _) as [[? ?]|]; [|discriminate].
    destruct (on_node s _ _); [|discriminate]. cbn. intros [= _ <-]. auto.
Qed.
Lemma d_local_id s u i s' o r : d_local' s u i = LOk s' o r -> op_id o = i.
Proof.
  unfold d_local', u_local. destruct u as [c|p].
  - destruct (doc_local s c i) as [[? ?]|] eqn:E; [|discriminate]. intros [= _ <- _]. apply (doc_local_id _ _ _ _ _ E).
  - destruct (patch_call s p) as [c|]; [|discriminate]. destruct (doc_local s c i) as [[? ?]|] eqn:E; [|discriminate].
    intros [= _ <- _]. apply (doc_local_id _ _ _ _ _ E).
Qed.
Lemma d_local_not_tx s u i s' o r : d_local' s u i = LOk s' o r -> is_tx o = false.
Proof.
  unfold d_local', u_local. destruct u as [c|p].
  - destruct (doc_local s c i) as [[? ?]|] eqn:E; [|discriminate]. intros [= _ <- _]. apply (doc_local_id _ _ _ _ _ E).
  - destruct (patch_call s p) as [c|]; [|discriminate]. destruct (doc_local s c i) as [[? ?]|] eqn:E; [|discriminate].
    intros [= _ <- _]. apply (doc_local_id _ _ _ _ _ E).
Qed.

Definition d_run := drun jt ucall unit jt u_validate d_local' doc_remote id_ id_.
Definition d_tx := transaction jt ucall unit jt u_validate d_local' doc_remote id_ id_.
Definition d_new := dt_create jt ucall jt doc_init id_.

(* C09 / C19: an aborted Document transaction — a failed Patch included — restores the whole datatype *)
Theorem doc_abort_restores c es d tag cs : d_run (d_new c) es = Some d ->
  let d' := fst (d_tx d tag cs true) in
  d_snap d' = d_snap d /\ d_oid d' = d_oid d /\ d_buf d' = d_buf d /\ d_cp d' = d_cp d.
Proof. apply abort_restores_anywhere; [apply id_import_export|apply d_local_id|apply d_local_not_tx]. Qed.

(* C19: a Patch of several operations is queued as ONE contiguous unit headed by its length *)
Theorem doc_commit_is_unit c es d tag cs : d_run (d_new c) es = Some d ->
  let '(d', rs) := d_tx d tag cs false in
  Forall (fun r => r <> Panicked) rs ->
  exists ops, d_buf d' = d_buf d ++ OTx (opid_next (d_oid d)) tag (Z.of_nat (S (length ops))) :: ops /\
              Forall (fun o => is_tx o = false) ops.
Proof.
  intros Hrun.
  assert (Hi : RbInv jt ucall unit jt d_local' doc_remote id_ d).
  { eapply run_inv; [apply id_import_export|apply d_local_id|apply d_local_not_tx| |exact Hrun].
    apply create_inv. apply id_import_export. }
  pose proof (commit_is_unit jt ucall unit jt u_validate d_local' doc_remote id_ id_ d_local_id d_local_not_tx d tag cs Hi) as H.
  unfold d_tx. destruct (transaction _ _ _ _ _ _ _ _ _ d tag cs false) as [d' rs].
  intros Hf. destruct (H Hf) as [ops [H1 [H2 _]]]. exists ops. auto.
Qed.

(* ---------- the JSON pointer (RFC 6901) ---------- *)
(* how jsondiff renders one key *)
Fixpoint escape (s : str) : str :=
  match s with
  | [] => []
  | c :: r => if N.eqb c 126 then 126 :: 48 :: escape r else if N.eqb c 47 then 126 :: 49 :: escape r else c :: escape r
  end.
Fixpoint pointer (toks : list str) : str :=
  match toks with
  | [] => []
  | t :: r => 47 :: escape t ++ pointer r
  end.

Lemma unescape_cons_other c r : c <> 126 -> unescape (c :: r) = c :: unescape r.
Proof. intros H. cbn [unescape]. destruct (N.eqb_spec c 126); [contradiction|reflexivity]. Qed.

Lemma unescape_escape s : unescape (escape s) = s.
Proof.
  induction s as [|c r IH]; [reflexivity|]. cbn [escape].
  destruct (N.eqb_spec c 126) as [->|N1].
  - cbn [unescape]. cbn. rewrite IH. reflexivity.
  - destruct (N.eqb_spec c 47) as [->|N2].
    + cbn [unescape]. cbn. rewrite IH. reflexivity.
    + rewrite unescape_cons_other by exact N1. rewrite IH. reflexivity.
Qed.

Lemma escape_no_slash s : ~ In 47 (escape s).
Proof.
  induction s as [|c r IH]; cbn [escape]; [intros []|].
  destruct (N.eqb_spec c 126) as [->|N1]; [intros [H|[H|H]]; [discriminate|discriminate|exact (IH H)]|].
  destruct (N.eqb_spec c 47) as [->|N2]; [intros [H|[H|H]]; [discriminate|discriminate|exact (IH H)]|].
  intros [H|H]; [congruence|exact (IH H)].
Qed.
Lemma split_no_slash t : forall rest cur, ~ In 47 t -> split_slash (t ++ rest) cur = split_slash rest (rev t ++ cur).
Proof.
  induction t as [|c t IH]; intros rest cur H; [reflexivity|]. cbn [app split_slash].
  destruct (N.eqb_spec c 47) as [->|N]; [exfalso; apply H; left; reflexivity|].
  rewrite IH by (intros Hin; apply H; right; exact Hin). cbn [rev]. rewrite <- app_assoc. reflexivity.
Qed.
Lemma split_pointer toks : forall cur, split_slash (pointer toks) cur = rev cur :: map escape toks.
Proof.
  induction toks as [|t r IH]; intros cur; [reflexivity|]. cbn [pointer split_slash]. cbn [N.eqb Pos.eqb]. f_equal.
  rewrite split_no_slash by apply escape_no_slash. rewrite IH, app_nil_r, rev_involutive. reflexivity.
Qed.

(* C19: whatever the keys are — '~', '/', any code points — the path jsondiff renders for the tokens [toks] is read back
   by the patch resolution as exactly these tokens (after the empty text before the first '/') *)
Theorem pointer_roundtrip toks : map unescape (split_slash (pointer toks) []) = [] :: toks.
Proof.
  rewrite split_pointer. cbn [rev map]. f_equal. rewrite map_map. rewrite <- (map_id toks) at 2. apply map_ext. apply unescape_escape.
Qed.

(* a patch operation acts exactly like the corresponding call of the API on the container its path names: by definition
   of [u_local]; spelled out for the record *)
Theorem patch_is_api_call s p c i : patch_call s p = Some c -> u_local s (UPatch p) i = doc_local s c i /\ u_validate s (UPatch p) = doc_validate s c.
Proof. intros H. cbn. rewrite H. auto. Qed.

(* ---------- creating the tree of a value: identifiers and readable value ---------- *)
Fixpoint carr (t : ts) (vs : list val) (i : N) : list (ts * jt) * N :=
  match vs with
  | [] => ([], i)
  | x :: xs => let '(j, i1) := create t x i in let '(r, i2) := carr t xs i1 in ((jc j, j) :: r, i2)
  end.
Fixpoint cobj (t : ts) (kvs : list (str * val)) (i : N) : list (str * jt) * N :=
  match kvs with
  | [] => ([], i)
  | (k, x) :: xs => let '(j, i1) := create t x i in let '(r, i2) := cobj t xs i1 in ((k, j) :: r, i2)
  end.

Lemma create_arr t vs i :
  create t (VArr vs) i = let '(l, i') := carr t vs (i + 1) in (JA (ts_at t i) None l (Z.of_nat (length l)), i').
Proof.
  cbn [create].
  assert (E : forall vs i, (fix go (vs : list val) (i : N) {struct vs} : list (ts * jt) * N :=
                              match vs with
                              | [] => ([], i)
                              | x :: xs => let '(j, i1) := create t x i in let '(r, i2) := go xs i1 in ((jc j, j) :: r, i2)
                              end) vs i = carr t vs i).
  { clear. induction vs as [|x xs IH]; intros i; [reflexivity|]. cbn [carr]. destruct (create t x i) as [j i1]. rewrite IH. reflexivity. }
  rewrite E. reflexivity.
Qed.
Lemma create_obj t kvs i :
  create t (VObj kvs) i = let '(m, i') := cobj t kvs (i + 1) in (JO (ts_at t i) None m (Z.of_nat (length m)), i').
Proof.
  cbn [create].
  assert (E : forall kvs i, (fix go (kvs : list (str * val)) (i : N) {struct kvs} : list (str * jt) * N :=
                               match kvs with
                               | [] => ([], i)
                               | (k, x) :: xs => let '(j, i1) := create t x i in let '(r, i2) := go xs i1 in ((k, j) :: r, i2)
                               end) kvs i = cobj t kvs i).
  { clear. induction kvs as [|[k x] xs IH]; intros i; [reflexivity|]. cbn [cobj]. destruct (create t x i) as [j i1]. rewrite IH. reflexivity. }
  rewrite E. reflexivity.
Qed.

Fixpoint vcount (v : val) : nat :=
  match v with
  | VArr vs => S (fold_right (fun x a => (vcount x + a)%nat) 0%nat vs)
  | VObj kvs => S (fold_right (fun kv a => match kv with (_, x) => (vcount x + a)%nat end) 0%nat kvs)
  | _ => 1%nat
  end.
Fixpoint nrange (i : N) (n : nat) : list N := match n with O => [] | S n' => i :: nrange (i + 1) n' end.

Lemma nrange_app a b : forall i, nrange i (a + b) = nrange i a ++ nrange (i + N.of_nat a) b.
Proof.
  induction a as [|a IH]; intros i; cbn [nrange plus app].
  - rewrite N.add_0_r. reflexivity.
  - rewrite IH. do 3 f_equal. rewrite Nat2N.inj_succ. lia.
Qed.
Lemma nrange_in i n x : In x (nrange i n) <-> i <= x < i + N.of_nat n.
Proof.
  revert i; induction n as [|n IH]; intros i; cbn [nrange In]; [cbn; lia|]. rewrite IH, Nat2N.inj_succ. lia.
Qed.
Lemma nrange_nodup n : forall i, NoDup (nrange i n).
Proof.
  induction n as [|n IH]; intros i; cbn; constructor; [|apply IH]. rewrite nrange_in. lia.
Qed.

(* the identifiers of the tree created for a value: the operation's timestamp with the consecutive delimiters
   i, i+1, ..., one per node, parents before children *)
Theorem create_ids t v : forall i,
  let '(j, i') := create t v i in
  i' = i + N.of_nat (vcount v) /\ all_cs j = map (ts_at t) (nrange i (vcount v)).
Proof.
  induction v as [z|s|b|vs IH|kvs IH] using val_ind'; intros i; try (cbn; split; [lia|reflexivity]).
  - rewrite create_arr. cbn [vcount].
    assert (L : forall vs, Forall (fun v => forall i, let '(j, i') := create t v i in
                                   i' = i + N.of_nat (vcount v) /\ all_cs j = map (ts_at t) (nrange i (vcount v))) vs ->
              forall i, let '(l, i') := carr t vs i in
                        let n := fold_right (fun x a => (vcount x + a)%nat) 0%nat vs in
                        i' = i + N.of_nat n /\ flat_map (fun oc => match oc with (_, x) => all_cs x end) l = map (ts_at t) (nrange i n)).
    { clear. induction vs as [|x xs IHl]; intros H i0; cbn [carr fold_right]; [split; [lia|reflexivity]|].
      inversion H as [|? ? Hx Hxs]; subst. specialize (Hx i0). destruct (create t x i0) as [j i1]. destruct Hx as [E1 E2].
      specialize (IHl Hxs i1). destruct (carr t xs i1) as [r i2]. cbv zeta in IHl. destruct IHl as [F1 F2].
      split; [lia|]. cbn [flat_map]. rewrite E2, F2, nrange_app, map_app. subst i1. reflexivity. }
    specialize (L vs IH (i + 1)). destruct (carr t vs (i + 1)) as [l i']. cbv zeta in L. destruct L as [L1 L2].
    split; [lia|]. cbn [all_cs nrange map]. rewrite L2. reflexivity.
  - rewrite create_obj. cbn [vcount].
    assert (L : forall kvs, Forall (fun kv => forall i, let '(j, i') := create t (snd kv) i in
                                   i' = i + N.of_nat (vcount (snd kv)) /\ all_cs j = map (ts_at t) (nrange i (vcount (snd kv)))) kvs ->
              forall i, let '(m, i') := cobj t kvs i in
                        let n := fold_right (fun kv a => match kv with (_, x) => (vcount x + a)%nat end) 0%nat kvs in
                        i' = i + N.of_nat n /\ flat_map (fun kc => match kc with (_, x) => all_cs x end) m = map (ts_at t) (nrange i n)).
    { clear. induction kvs as [|[k x] xs IHl]; intros H i0; cbn [cobj fold_right]; [split; [lia|reflexivity]|].
      inversion H as [|? ? Hx Hxs]; subst. cbn [snd] in Hx. specialize (Hx i0). destruct (create t x i0) as [j i1]. destruct Hx as [E1 E2].
      specialize (IHl Hxs i1). destruct (cobj t xs i1) as [r i2]. cbv zeta in IHl. destruct IHl as [F1 F2].
      split; [lia|]. cbn [flat_map]. rewrite E2, F2, nrange_app, map_app. subst i1. reflexivity. }
    specialize (L kvs IH (i + 1)). destruct (cobj t kvs (i + 1)) as [m i']. cbv zeta in L. destruct L as [L1 L2].
    split; [lia|]. cbn [all_cs nrange map]. rewrite L2. reflexivity.
Qed.

Lemma ts_at_inj t a b : ts_at t a = ts_at t b -> a = b.
Proof. unfold ts_at. intros [= H]. lia. Qed.

(* C15 for nested values: whatever the nesting depth and the number of members, no two nodes of the tree created
   for one value share an identifier *)
Theorem create_ids_distinct t v i : NoDup (all_cs (fst (create t v i))).
Proof.
  pose proof (create_ids t v i) as H. destruct (create t v i) as [j i']. cbn [fst]. destruct H as [_ ->].
  assert (G : forall l : list N, NoDup l -> NoDup (map (ts_at t) l)).
  { induction l as [|a l IH]; cbn; intros H; [constructor|]. inversion H as [|? ? Hn Hd]; subst. constructor; [|apply IH, Hd].
    intros Hin. apply in_map_iff in Hin. destruct Hin as [b [E Hb]]. apply ts_at_inj in E. subst b. contradiction. }
  apply G, nrange_nodup.
Qed.

(* ---------- a value that is put reads back as itself ---------- *)
From Orda.Proofs Require Import SortFacts.

(* the JSON values as the implementation shows them: object members in key order, keys distinct *)
Inductive canon : val -> Prop :=
| CNum z : canon (VNum z)
| CStr s : canon (VStr s)
| CBool b : canon (VBool b)
| CArr vs : Forall canon vs -> canon (VArr vs)
| CObj kvs : ksorted kvs -> Forall (fun kv => canon (snd kv)) kvs -> canon (VObj kvs).

Lemma create_not_tomb t v i : jtomb (fst (create t v i)) = false.
Proof.
  destruct v; try reflexivity.
  - rewrite create_arr. destruct (carr t l (i + 1)). reflexivity.
  - rewrite create_obj. destruct (cobj t l (i + 1)). reflexivity.
Qed.

Lemma sorted_sort_id {V} (l : list (str * V)) : ksorted l -> sort_by_key l = l.
Proof.
  induction l as [|[k v] l IH]; [reflexivity|]. cbn [ksorted fst]. intros [H1 H2]. cbn [sort_by_key fold_right fst snd].
  fold (sort_by_key l). rewrite IH by exact H2. destruct l as [|[k' v'] l']; [reflexivity|]. cbn [ins_sorted].
  inversion H1 as [|? ? Hk _]; subst. cbn [fst] in Hk. unfold klt' in Hk. rewrite Hk. reflexivity.
Qed.

Theorem create_view t v : canon v -> forall i, jview (fst (create t v i)) = v.
Proof.
  induction v as [z|s|b|vs IH|kvs IH] using val_ind'; intros Hc i; try reflexivity.
  - inversion Hc as [| | |? Hvs|]; subst. rewrite create_arr.
    assert (L : forall vs, Forall (fun v => canon v -> forall i, jview (fst (create t v i)) = v) vs -> Forall canon vs ->
              forall i, flat_map (fun oc : ts * jt => match oc with (_, c) => if jtomb c then [] else [jview c] end) (fst (carr t vs i)) = vs).
    { clear. induction vs as [|x xs IHl]; intros H Hc i0; [reflexivity|]. cbn [carr].
      inversion H as [|? ? Hx Hxs]; subst. inversion Hc as [|? ? Cx Cxs]; subst.
      pose proof (Hx Cx i0) as Ex. pose proof (create_not_tomb t x i0) as Tx. destruct (create t x i0) as [j i1]. cbn [fst] in Ex, Tx.
      specialize (IHl Hxs Cxs i1). destruct (carr t xs i1) as [r i2]. cbn [fst flat_map] in *. rewrite Tx, Ex, IHl. reflexivity. }
    specialize (L vs IH Hvs (i + 1)). destruct (carr t vs (i + 1)) as [l i']. cbn [fst jview] in *. rewrite L. reflexivity.
  - inversion Hc as [| | | |? Hs Hkvs]; subst. rewrite create_obj.
    assert (L : forall kvs, Forall (fun kv => canon (snd kv) -> forall i, jview (fst (create t (snd kv) i)) = snd kv) kvs ->
              Forall (fun kv => canon (snd kv)) kvs ->
              forall i, flat_map (fun kc : str * jt => match kc with (k, c) => if jtomb c then [] else [(k, jview c)] end) (fst (cobj t kvs i)) = kvs).
    { clear. induction kvs as [|[k x] xs IHl]; intros H Hc i0; [reflexivity|]. cbn [cobj].
      inversion H as [|? ? Hx Hxs]; subst. inversion Hc as [|? ? Cx Cxs]; subst. cbn [snd] in Hx, Cx.
      pose proof (Hx Cx i0) as Ex. pose proof (create_not_tomb t x i0) as Tx. destruct (create t x i0) as [j i1]. cbn [fst] in Ex, Tx.
      specialize (IHl Hxs Cxs i1). destruct (cobj t xs i1) as [r i2]. cbn [fst flat_map] in *. rewrite Tx, Ex, IHl. reflexivity. }
    specialize (L kvs IH Hkvs (i + 1)). destruct (cobj t kvs (i + 1)) as [m i']. cbn [fst jview] in *. rewrite L.
    rewrite sorted_sort_id by exact Hs. reflexivity.
Qed.
