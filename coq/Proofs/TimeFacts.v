From Coq Require Import List NArith ZArith Bool Lia DecimalN Decimal DecimalFacts.
From Orda.Model Require Import Base Time.
Import ListNotations.
Open Scope N_scope.

(* ---------- strings ---------- *)
Lemma str_eqb_refl a : str_eqb a a = true.
Proof. induction a as [|x a IH]; cbn; [reflexivity|]. rewrite N.eqb_refl, IH. reflexivity. Qed.

Lemma str_eqb_eq a b : str_eqb a b = true <-> a = b.
Proof.
  revert b; induction a as [|x a IH]; intros [|y b]; cbn; split; intros H; try congruence; try discriminate.
  - apply andb_true_iff in H. destruct H as [H1 H2]. apply N.eqb_eq in H1. apply IH in H2. congruence.
  - injection H as -> ->. rewrite N.eqb_refl. apply str_eqb_refl.
Qed.

Lemma str_cmp_eq a b : str_cmp a b = Eq <-> a = b.
Proof.
  revert b; induction a as [|x a IH]; intros [|y b]; cbn; split; intros H; try congruence; try discriminate.
  - destruct (N.compare_spec x y) as [E|E|E]; try discriminate. apply IH in H. congruence.
  - injection H as -> ->. rewrite N.compare_refl. apply IH. reflexivity.
Qed.

Lemma str_cmp_antisym a b : str_cmp b a = CompOpp (str_cmp a b).
Proof.
  revert b; induction a as [|x a IH]; intros [|y b]; cbn; try reflexivity.
  rewrite (N.compare_antisym x y). destruct (N.compare x y); cbn; auto.
Qed.

Lemma str_cmp_lt_trans a : forall b c, str_cmp a b = Lt -> str_cmp b c = Lt -> str_cmp a c = Lt.
Proof.
  induction a as [|x a IH]; intros [|y b] [|z c]; cbn; try congruence; try discriminate.
  destruct (N.compare_spec x y) as [E1|E1|E1]; destruct (N.compare_spec y z) as [E2|E2|E2];
    intros H1 H2; try discriminate.
  - subst. rewrite N.compare_refl. eapply IH; eauto.
  - rewrite (proj2 (N.compare_lt_iff x z)) by lia. reflexivity.
  - rewrite (proj2 (N.compare_lt_iff x z)) by lia. reflexivity.
  - rewrite (proj2 (N.compare_lt_iff x z)) by lia. reflexivity.
Qed.

(* ---------- decimal digits ---------- *)
Lemma uint_bytes_inj u v : uint_bytes u = uint_bytes v -> u = v.
Proof.
  revert v; induction u; intros v H; destruct v; cbn in H; try discriminate; try reflexivity;
    injection H as H; f_equal; auto.
Qed.

Lemma digits_inj a b : digits a = digits b -> a = b.
Proof.
  unfold digits. intros H. apply uint_bytes_inj in H.
  rewrite <- (DecimalN.Unsigned.of_to a), <- (DecimalN.Unsigned.of_to b). congruence.
Qed.

Lemma uint_bytes_digit u x : In x (uint_bytes u) -> 48 <= x <= 57.
Proof. induction u; cbn; intros H; [destruct H|..]; (destruct H as [H|H]; [lia|auto]). Qed.

Lemma digits_nosep n : ~ In sep (digits n).
Proof. intros H. apply uint_bytes_digit in H. unfold sep in H. lia. Qed.

(* splitting at the first separator *)
Lemma split_sep a : forall b x y,
    ~ In sep a -> ~ In sep b -> a ++ sep :: x = b ++ sep :: y -> a = b /\ x = y.
Proof.
  induction a as [|c a IH]; intros [|d b] x y Ha Hb H; cbn in *.
  - injection H as ->. auto.
  - injection H as H1 H2. exfalso. apply Hb. left. congruence.
  - injection H as H1 H2. exfalso. apply Ha. left. exact H1.
  - injection H as -> H. destruct (IH b x y) as [-> ->]; auto.
Qed.

Theorem ts_hash_inj a b : ts_hash a = ts_hash b -> a = b.
Proof.
  destruct a as [e1 l1 c1 d1], b as [e2 l2 c2 d2]. unfold ts_hash; cbn.
  intros H.
  apply split_sep in H; try apply digits_nosep. destruct H as [He H].
  apply split_sep in H; try apply digits_nosep. destruct H as [Hl H].
  apply split_sep in H; try apply digits_nosep. destruct H as [Hd Hc].
  apply digits_inj in He, Hl, Hd. congruence.
Qed.

(* the pre-repair key format is not injective: (lamport 1, delimiter 10) vs (lamport 11, delimiter 0) *)
Theorem ts_hash_nosep_refuted :
  exists a b, a <> b /\ cuid a = cuid b /\ ts_hash_nosep a = ts_hash_nosep b.
Proof.
  exists (mkTs 0 1 nil_uid 10), (mkTs 0 11 nil_uid 0).
  split; [discriminate|]. split; reflexivity.
Qed.

(* ---------- Compare ---------- *)
Definition two31 : N := 2147483648.
Definition two63 : N := 9223372036854775808.
Definition ts_bounded (t : ts) : Prop := era t < two31 /\ lam t < two63.

Lemma cmp_wrap32_plain a b : a < two31 -> b < two31 -> cmp_wrap32 a b = N.compare a b.
Proof.
  unfold two31, cmp_wrap32, wrap32. intros Ha Hb.
  destruct (N.compare_spec a b) as [E|E|E].
  - subst. rewrite Z.sub_diag. reflexivity.
  - set (d := (Z.of_N a - Z.of_N b)%Z).
    assert (Hd : (-2147483648 < d < 0)%Z) by (unfold d; lia).
    assert (Hm : (d mod 4294967296 = d + 4294967296)%Z).
    { symmetry. apply Z.mod_unique with (q := (-1)%Z); lia. }
    rewrite Hm.
    destruct (Z.ltb_spec (d + 4294967296) 2147483648); [lia|].
    destruct (Z.ltb_spec 0 (d + 4294967296 - 4294967296)); [lia|].
    destruct (Z.ltb_spec (d + 4294967296 - 4294967296) 0); [reflexivity|lia].
  - set (d := (Z.of_N a - Z.of_N b)%Z).
    assert (Hd : (0 < d < 2147483648)%Z) by (unfold d; lia).
    rewrite Z.mod_small by lia.
    destruct (Z.ltb_spec d 2147483648); [|lia].
    destruct (Z.ltb_spec 0 d); [reflexivity|lia].
Qed.

Lemma cmp_wrap64_plain a b : a < two63 -> b < two63 -> cmp_wrap64 a b = N.compare a b.
Proof.
  unfold two63, cmp_wrap64, wrap64. intros Ha Hb.
  destruct (N.compare_spec a b) as [E|E|E].
  - subst. rewrite Z.sub_diag. reflexivity.
  - set (d := (Z.of_N a - Z.of_N b)%Z).
    assert (Hd : (-9223372036854775808 < d < 0)%Z) by (unfold d; lia).
    assert (Hm : (d mod 18446744073709551616 = d + 18446744073709551616)%Z).
    { symmetry. apply Z.mod_unique with (q := (-1)%Z); lia. }
    rewrite Hm.
    destruct (Z.ltb_spec (d + 18446744073709551616) 9223372036854775808); [lia|].
    destruct (Z.ltb_spec 0 (d + 18446744073709551616 - 18446744073709551616)); [lia|].
    destruct (Z.ltb_spec (d + 18446744073709551616 - 18446744073709551616) 0); [reflexivity|lia].
  - set (d := (Z.of_N a - Z.of_N b)%Z).
    assert (Hd : (0 < d < 9223372036854775808)%Z) by (unfold d; lia).
    rewrite Z.mod_small by lia.
    destruct (Z.ltb_spec d 9223372036854775808); [|lia].
    destruct (Z.ltb_spec 0 d); [reflexivity|lia].
Qed.

(* the plain lexicographic comparison *)
Definition ts_compare_plain (a b : ts) : comparison :=
  match N.compare (era a) (era b) with
  | Eq => match N.compare (lam a) (lam b) with
          | Eq => str_cmp (cuid a) (cuid b)
          | c => c
          end
  | c => c
  end.

Lemma ts_compare_is_plain a b : ts_bounded a -> ts_bounded b -> ts_compare a b = ts_compare_plain a b.
Proof.
  intros [Ha1 Ha2] [Hb1 Hb2]. unfold ts_compare, ts_compare_plain.
  rewrite cmp_wrap32_plain, cmp_wrap64_plain by assumption. reflexivity.
Qed.

(* same operation = same (era, lamport, cuid); delimiters are ignored by Compare *)
Definition same_op (a b : ts) : Prop := era a = era b /\ lam a = lam b /\ cuid a = cuid b.

Lemma plain_eq a b : ts_compare_plain a b = Eq <-> same_op a b.
Proof.
  unfold ts_compare_plain, same_op.
  destruct (N.compare_spec (era a) (era b)) as [E1|E1|E1];
    [destruct (N.compare_spec (lam a) (lam b)) as [E2|E2|E2]|..];
    rewrite ?str_cmp_eq; split; intros H; try discriminate; try tauto; try lia.
Qed.

Lemma plain_antisym a b : ts_compare_plain b a = CompOpp (ts_compare_plain a b).
Proof.
  unfold ts_compare_plain.
  rewrite (N.compare_antisym (era a) (era b)), (N.compare_antisym (lam a) (lam b)), (str_cmp_antisym (cuid a) (cuid b)).
  destruct (era a ?= era b); cbn; auto. destruct (lam a ?= lam b); cbn; auto.
Qed.

Lemma plain_lt_trans a b c :
  ts_compare_plain a b = Lt -> ts_compare_plain b c = Lt -> ts_compare_plain a c = Lt.
Proof.
  unfold ts_compare_plain.
  destruct (N.compare_spec (era a) (era b)) as [E1|E1|E1]; try discriminate;
  destruct (N.compare_spec (era b) (era c)) as [E2|E2|E2]; try discriminate; intros H1 H2.
  - rewrite E1, E2, N.compare_refl.
    destruct (N.compare_spec (lam a) (lam b)) as [F1|F1|F1]; try discriminate;
    destruct (N.compare_spec (lam b) (lam c)) as [F2|F2|F2]; try discriminate.
    + rewrite F1, F2, N.compare_refl. eapply str_cmp_lt_trans; eauto.
    + rewrite (proj2 (N.compare_lt_iff (lam a) (lam c))) by lia. reflexivity.
    + rewrite (proj2 (N.compare_lt_iff (lam a) (lam c))) by lia. reflexivity.
    + rewrite (proj2 (N.compare_lt_iff (lam a) (lam c))) by lia. reflexivity.
  - rewrite (proj2 (N.compare_lt_iff (era a) (era c))) by lia. reflexivity.
  - rewrite (proj2 (N.compare_lt_iff (era a) (era c))) by lia. reflexivity.
  - rewrite (proj2 (N.compare_lt_iff (era a) (era c))) by lia. reflexivity.
Qed.

(* strict total order over distinct operations, for bounded clocks *)
Theorem ts_compare_total_order :
  forall a b c, ts_bounded a -> ts_bounded b -> ts_bounded c ->
    (ts_compare a b = Eq <-> same_op a b) /\
    ts_compare b a = CompOpp (ts_compare a b) /\
    (ts_compare a b = Lt -> ts_compare b c = Lt -> ts_compare a c = Lt).
Proof.
  intros a b c Ha Hb Hc.
  rewrite !ts_compare_is_plain by assumption.
  split; [apply plain_eq|]. split; [apply plain_antisym|apply plain_lt_trans].
Qed.

(* without the bound the wrapped comparison is NOT transitive (half-range wrap) *)
Theorem ts_compare_unbounded_refuted :
  exists a b c, ts_compare a b = Lt /\ ts_compare b c = Lt /\ ts_compare a c <> Lt.
Proof.
  exists (mkTs 0 0 [] 0), (mkTs 0 (two63 - 1) [] 0), (mkTs 0 (two63 + 5) [] 0).
  vm_compute. repeat split; discriminate.
Qed.

(* Next strictly increases (below the wrap), SyncLamport dominates *)
Lemma opid_next_gt o : o_lam o + 1 < two63 -> o_era o < two31 ->
  ts_compare (opid_ts o) (opid_ts (opid_next o)) = Lt.
Proof.
  intros Hl He.
  assert (Hm : (o_lam o + 1) mod two64 = o_lam o + 1) by (apply N.mod_small; unfold two63, two64 in *; lia).
  rewrite ts_compare_is_plain.
  - unfold ts_compare_plain, opid_next, opid_ts; cbn [era lam cuid o_era o_lam o_cuid].
    rewrite N.compare_refl, Hm.
    rewrite (proj2 (N.compare_lt_iff (o_lam o) (o_lam o + 1))) by lia. reflexivity.
  - split; cbn [era lam opid_ts]; [assumption|lia].
  - split; cbn [era lam opid_ts opid_next o_era o_lam]; [assumption|]. rewrite Hm. exact Hl.
Qed.

Lemma opid_sync_ge o n : o_lam o + 1 < two64 -> n <= o_lam (opid_sync o n) /\ o_lam o <= o_lam (opid_sync o n).
Proof.
  intros H. unfold opid_sync. destruct (N.ltb_spec (o_lam o) n); cbn; [lia|].
  rewrite N.mod_small by exact H. lia.
Qed.
