(* LWW map kernel: every key is an independent register updated by "keep the
   entry with the greater timestamp"; operations commute; Size = number of live keys. *)
From Coq Require Import List NArith ZArith Bool Lia Permutation.
From Orda.Model Require Import Base Time Ops Map.
From Orda.Proofs Require Import TimeFacts OrderFacts.
Import ListNotations.

(* ---------- association lists ---------- *)
Lemma str_eqb_sym a b : str_eqb a b = str_eqb b a.
Proof.
  destruct (str_eqb a b) eqn:E.
  - apply str_eqb_eq in E. subst. symmetry. apply str_eqb_refl.
  - destruct (str_eqb b a) eqn:E'; [|reflexivity]. apply str_eqb_eq in E'. subst. rewrite str_eqb_refl in E. discriminate.
Qed.
Lemma str_eqb_neq a b : str_eqb a b = false <-> a <> b.
Proof. split; intros H. - intros ->. rewrite str_eqb_refl in H. discriminate.
       - destruct (str_eqb a b) eqn:E; [|reflexivity]. apply str_eqb_eq in E. contradiction. Qed.

Section AL.
  Context {V : Type}.
  Notation look := (alookup (V:=V) str_eqb).
  Notation set := (aset (V:=V) str_eqb).
  Lemma alookup_aset k k' v (m : list (str * V)) :
    look k (set k' v m) = if str_eqb k k' then Some v else look k m.
  Proof.
    induction m as [|[k0 v0] m IH]; cbn.
    - destruct (str_eqb k k'); reflexivity.
    - destruct (str_eqb k' k0) eqn:E0; cbn.
      + destruct (str_eqb k k') eqn:E; [reflexivity|].
        apply str_eqb_eq in E0. subst. rewrite E. reflexivity.
      + destruct (str_eqb k k0) eqn:E1.
        * apply str_eqb_eq in E1. subst. rewrite str_eqb_sym, E0. reflexivity.
        * exact IH.
  Qed.
  Definition keys (m : list (str * V)) := map fst m.
  Lemma aset_keys_in k v m x : In x (keys (set k v m)) <-> x = k \/ In x (keys m).
  Proof.
    induction m as [|[k0 v0] m IH]; cbn.
    - intuition.
    - destruct (str_eqb k k0) eqn:E; cbn.
      + apply str_eqb_eq in E. subst. intuition.
      + rewrite IH. intuition.
  Qed.
  Lemma aset_nodup k v m : NoDup (keys m) -> NoDup (keys (set k v m)).
  Proof.
    induction m as [|[k0 v0] m IH]; cbn; intros H.
    - constructor; [intros []|constructor].
    - inversion H as [|? ? Hn Hd]; subst. destruct (str_eqb k k0) eqn:E; cbn.
      + apply str_eqb_eq in E. subst. constructor; assumption.
      + constructor; [|apply IH; exact Hd].
        rewrite aset_keys_in. intros [->|Hin]; [|contradiction].
        rewrite str_eqb_refl in E. discriminate.
  Qed.
  Lemma look_in k v m : NoDup (keys m) -> (look k m = Some v <-> In (k, v) m).
  Proof.
    induction m as [|[k0 v0] m IH]; cbn; intros H.
    - split; [discriminate|intros []].
    - inversion H as [|? ? Hn Hd]; subst. destruct (str_eqb k k0) eqn:E.
      + apply str_eqb_eq in E. subst. split.
        * intros [= ->]. left; reflexivity.
        * intros [[= ->]|Hin]; [reflexivity|]. exfalso. apply Hn. apply in_map_iff. exists (k0, v). auto.
      + rewrite (IH Hd). split; [tauto|]. intros [[= -> ->]|Hin]; [|exact Hin].
        rewrite str_eqb_refl in E. discriminate.
  Qed.
End AL.

(* ---------- the per-key register ---------- *)
Definition rmax (old new : mentry) : mentry := if ts_lt (m_t old) (m_t new) then new else old.
Definition reg_put (v : val) (t : ts) (r : option mentry) : option mentry :=
  match r with None => Some (mkMentry (Some v) t) | Some old => Some (rmax old (mkMentry (Some v) t)) end.
Definition reg_rm (t : ts) (r : option mentry) : option mentry :=
  match r with None => None | Some old => Some (rmax old (mkMentry None t)) end.
Definition reg_apply (k : str) (r : option mentry) (o : op) : option mentry :=
  match o with
  | OPut i k' v => if str_eqb k k' then reg_put v (opid_ts i) r else r
  | ORemove i k' => if str_eqb k k' then reg_rm (opid_ts i) r else r
  | OSnap _ => None          (* the snapshot operation replaces the map by its (empty) body *)
  | _ => r
  end.

Lemma mget_put s k v t k' :
  mget (fst (m_put s k v t)) k' = if str_eqb k' k then reg_put v t (mget s k) else mget s k'.
Proof.
  unfold m_put, mget at 1. destruct (mget s k) as [old|] eqn:E; cbn.
  - unfold rmax; cbn. destruct (ts_lt (m_t old) t); cbn.
    + apply alookup_aset.
    + destruct (str_eqb k' k) eqn:Ek; [|reflexivity]. apply str_eqb_eq in Ek. subst. exact E.
  - apply alookup_aset.
Qed.
Lemma mget_rm s k t k' :
  mget (m_remove_remote s k t) k' = if str_eqb k' k then reg_rm t (mget s k) else mget s k'.
Proof.
  unfold m_remove_remote, mget at 1. destruct (mget s k) as [[v t0]|] eqn:E; cbn.
  - unfold rmax; cbn. destruct (ts_lt t0 t); cbn.
    + apply alookup_aset.
    + destruct (str_eqb k' k) eqn:Ek; [|reflexivity]. apply str_eqb_eq in Ek. subst. exact E.
  - destruct (str_eqb k' k) eqn:Ek; [|reflexivity]. apply str_eqb_eq in Ek. subst. exact E.
Qed.
Theorem mget_exec s o k : mget (m_exec_remote s o) k = reg_apply k (mget s k) o.
Proof.
  destruct o; cbn [m_exec_remote reg_apply]; try reflexivity.
  - rewrite mget_put. destruct (str_eqb k k0) eqn:E; [apply str_eqb_eq in E; subst|]; reflexivity.
  - rewrite mget_rm. destruct (str_eqb k k0) eqn:E; [apply str_eqb_eq in E; subst|]; reflexivity.
Qed.

(* ---------- commutation on one register ---------- *)
Definition reg_bounded (r : option mentry) : Prop := match r with Some e => ts_bounded (m_t e) | None => True end.
Definition op_bounded (o : op) : Prop := ts_bounded (op_ts o).
(* an operation is ready on a register when a remove finds the key; the snapshot operation is the first of a log
   and is never delivered after another operation *)
Definition reg_ready (k : str) (r : option mentry) (o : op) : Prop :=
  op_bounded o /\ match o with ORemove _ k' => k' = k -> r <> None | OSnap _ => False | _ => True end.

Lemma rmax_comm o a b :
  ts_bounded (m_t o) -> ts_bounded (m_t a) -> ts_bounded (m_t b) ->
  key_of (m_t a) <> key_of (m_t b) ->
  rmax (rmax o a) b = rmax (rmax o b) a.
Proof.
  intros Ho Ha Hb Hne. unfold rmax.
  rewrite (ts_lt_klt _ _ Ho Ha), (ts_lt_klt _ _ Ho Hb).
  destruct (klt (key_of (m_t o)) (key_of (m_t a))) eqn:C1, (klt (key_of (m_t o)) (key_of (m_t b))) eqn:C2;
    rewrite ?(ts_lt_klt _ _ Ha Hb), ?(ts_lt_klt _ _ Hb Ha), ?(ts_lt_klt _ _ Ho Ha), ?(ts_lt_klt _ _ Ho Hb), ?C1, ?C2;
    try reflexivity.
  - destruct (klt (key_of (m_t a)) (key_of (m_t b))) eqn:C3, (klt (key_of (m_t b)) (key_of (m_t a))) eqn:C4; try reflexivity.
    + exfalso; klt_contra.
    + exfalso. apply Hne. apply klt_total; assumption.
  - destruct (klt (key_of (m_t a)) (key_of (m_t b))) eqn:C3; [|reflexivity]. exfalso; klt_contra.
  - destruct (klt (key_of (m_t b)) (key_of (m_t a))) eqn:C3; [|reflexivity]. exfalso; klt_contra.
Qed.

Lemma rmax_bounded o a : ts_bounded (m_t o) -> ts_bounded (m_t a) -> ts_bounded (m_t (rmax o a)).
Proof. unfold rmax. destruct (ts_lt _ _); auto. Qed.

Lemma reg_apply_bounded k r o : reg_bounded r -> op_bounded o -> reg_bounded (reg_apply k r o).
Proof.
  intros Hr Ho. destruct o; cbn; try exact Hr; try exact I; destruct (str_eqb k k0); try exact Hr;
    destruct r as [e|]; cbn in *; try exact I; try apply rmax_bounded; auto.
Qed.

Lemma reg_apply_keeps k r o : is_snap o = false -> r <> None -> reg_apply k r o <> None.
Proof.
  intros Hs H. destruct o; cbn; try exact H; try discriminate Hs; destruct (str_eqb k k0); try exact H;
    destruct r; try congruence; cbn; discriminate.
Qed.

Lemma reg_ready_mono k r a b : reg_ready k r a -> reg_ready k r b -> reg_ready k (reg_apply k r a) b.
Proof.
  intros [_ Ha2] [Hb1 Hb2]. split; [exact Hb1|]. destruct b; try exact I; try exact Hb2.
  intros E. apply reg_apply_keeps; [destruct a; try reflexivity; contradiction|auto].
Qed.

Lemma reg_ready_not_snap k r o : reg_ready k r o -> is_snap o = false.
Proof. intros [_ H]. destruct o; try reflexivity. contradiction. Qed.

Lemma reg_comm k r a b :
  reg_bounded r -> key_of (op_ts a) <> key_of (op_ts b) -> reg_ready k r a -> reg_ready k r b ->
  reg_apply k (reg_apply k r a) b = reg_apply k (reg_apply k r b) a.
Proof.
  intros Hr Hne [Ha Ra] [Hb Rb].
  destruct a as [| | |ia ka va|ia ka| | | | | | | |], b as [| | |ib kb vb|ib kb| | | | | | | |]; cbn [reg_apply]; try reflexivity;
    try (exfalso; exact Ra); try (exfalso; exact Rb);
    destruct (str_eqb k ka) eqn:Ea; destruct (str_eqb k kb) eqn:Eb; try reflexivity;
    try (apply str_eqb_eq in Ea); try (apply str_eqb_eq in Eb); subst;
    destruct r as [o|]; cbn [reg_put reg_rm];
    try (exfalso; (apply Ra || apply Rb); reflexivity);
    try (f_equal; apply rmax_comm; cbn; auto; fail).
  (* both puts on an absent key *)
  f_equal. unfold rmax; cbn. unfold op_bounded, op_ts in *; cbn [op_id] in *.
  rewrite (ts_lt_klt _ _ Ha Hb), (ts_lt_klt _ _ Hb Ha).
  destruct (klt (key_of (opid_ts ia)) (key_of (opid_ts ib))) eqn:C1, (klt (key_of (opid_ts ib)) (key_of (opid_ts ia))) eqn:C2; try reflexivity.
  - exfalso; klt_contra.
  - exfalso. apply Hne. apply klt_total; assumption.
Qed.
