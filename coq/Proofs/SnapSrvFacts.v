(* C11: the snapshots the server stores and the user-visible document equal the replay of the log.
   Model/SnapSrv.v over Model/Server.v. *)
From Coq Require Import List NArith ZArith Bool Lia.
From Orda.Model Require Import Base Time Ops Snapshot Server SnapSrv.
From Orda.Proofs Require Import TimeFacts MapFacts ServerFacts.
Import ListNotations.
Open Scope N_scope.

(* ---------- sorted lists and ranges ---------- *)
Lemma filter_ext_in' {A} (f g : A -> bool) l : (forall x, In x l -> f x = g x) -> filter f l = filter g l.
Proof.
  induction l as [|x l IH]; cbn; intros H; [reflexivity|].
  rewrite (H x (or_introl eq_refl)). rewrite IH; [reflexivity|]. intros y Hy. apply H. right. exact Hy.
Qed.
Lemma filter_none {A} (f : A -> bool) l : (forall x, In x l -> f x = false) -> filter f l = [].
Proof.
  induction l as [|x l IH]; cbn; intros H; [reflexivity|]. rewrite (H x (or_introl eq_refl)). apply IH. intros y Hy. apply H. right. exact Hy.
Qed.

(* in a list sorted by [f], the elements up to v are those up to v0 followed by those in (v0, v] *)
Lemma sorted_split {A} (f : A -> N) (l : list A) v0 v :
  StrictInc (map f l) -> v0 <= v ->
  filter (fun o => f o <=? v) l = filter (fun o => f o <=? v0) l ++ filter (fun o => (v0 <? f o) && (f o <=? v)) l.
Proof.
  intros Hs Hv. induction l as [|x l IH]; cbn; [reflexivity|]. cbn in Hs. destruct Hs as [H1 H2].
  destruct (N.leb_spec (f x) v0) as [Hx|Hx].
  - assert (E1 : (f x <=? v) = true) by (apply N.leb_le; lia).
    assert (E2 : (v0 <? f x) = false) by (apply N.ltb_ge; lia).
    rewrite E1, E2. cbn. rewrite IH by exact H2. reflexivity.
  - assert (E2 : (v0 <? f x) = true) by (apply N.ltb_lt; lia). rewrite E2. cbn [andb].
    assert (Z : filter (fun o => f o <=? v0) l = []).
    { apply filter_none. intros y Hy. apply N.leb_gt. rewrite Forall_forall in H1.
      specialize (H1 (f y) (in_map f l y Hy)). lia. }
    rewrite Z. cbn [app].
    assert (R : filter (fun o => f o <=? v) l = filter (fun o => (v0 <? f o) && (f o <=? v)) l).
    { apply filter_ext_in'. intros y Hy. rewrite Forall_forall in H1. specialize (H1 (f y) (in_map f l y Hy)).
      assert (E3 : (v0 <? f y) = true) by (apply N.ltb_lt; lia). rewrite E3. reflexivity. }
    destruct (f x <=? v); rewrite R; reflexivity.
Qed.

Lemma strictinc_app_inv l1 l2 : StrictInc (l1 ++ l2) -> StrictInc l1 /\ StrictInc l2 /\ (forall a b, In a l1 -> In b l2 -> a < b).
Proof.
  induction l1 as [|x l1 IH]; cbn; intros H.
  - repeat split; [exact H|]. intros a b [].
  - destruct H as [H1 H2]. destruct (IH H2) as [A [B C]]. rewrite Forall_forall in H1. repeat split; auto.
    + apply Forall_forall. intros y Hy. apply H1. apply in_or_app. left. exact Hy.
    + intros a b [<-|Ha] Hb; [apply H1; apply in_or_app; right; exact Hb|apply C; assumption].
Qed.

(* ---------- the log of one datatype ---------- *)
Definition log_docs (db : sdb) (D : str) (v : N) : list odoc :=
  filter (fun o => od_sseq o <=? v) (ops_of (s_ops db) D).
(* "log operations 1..v": the stored operations of D with sequence numbers up to v, in log order *)
Definition log_upto (db : sdb) (D : str) (v : N) : list op := map od_op (log_docs db D v).

Lemma get_ops_filter db D e from :
  map od_sseq (ops_of (s_ops db) D) = nseq 1 (N.to_nat e) ->
  get_ops db D from = filter (fun o => from <=? od_sseq o) (ops_of (s_ops db) D).
Proof.
  intros H. unfold get_ops.
  assert (E : filter (fun o => str_eqb (od_duid o) D && (from <=? od_sseq o)) (s_ops db) =
              filter (fun o => from <=? od_sseq o) (ops_of (s_ops db) D)).
  { unfold ops_of. rewrite filter_filter. reflexivity. }
  rewrite E. rewrite sort_sorted; [reflexivity|]. cbn [app].
  rewrite (map_filter_comm od_sseq (fun s => from <=? s)). rewrite H. apply filter_inc, nseq_inc.
Qed.

Lemma log_sorted db D e : map od_sseq (ops_of (s_ops db) D) = nseq 1 (N.to_nat e) -> StrictInc (map od_sseq (ops_of (s_ops db) D)).
Proof. intros ->. apply nseq_inc. Qed.

(* the operations after v0, up to e: what GetLatestDatatype replays on top of the snapshot at v0 *)
Lemma later_ops db D E v0 e :
  map od_sseq (ops_of (s_ops db) D) = nseq 1 (N.to_nat E) ->
  filter (fun o => od_sseq o <=? e) (get_ops db D (v0 + 1)) =
  filter (fun o => (v0 <? od_sseq o) && (od_sseq o <=? e)) (ops_of (s_ops db) D).
Proof.
  intros H. rewrite (get_ops_filter db D E _ H). rewrite filter_filter. apply filter_ext_in'. intros o _.
  destruct (N.leb_spec (v0 + 1) (od_sseq o)); destruct (N.ltb_spec v0 (od_sseq o)); try lia; reflexivity.
Qed.

Lemma log_docs_split db D E v0 v :
  map od_sseq (ops_of (s_ops db) D) = nseq 1 (N.to_nat E) -> v0 <= v ->
  log_docs db D v = log_docs db D v0 ++ filter (fun o => (v0 <? od_sseq o) && (od_sseq o <=? v)) (ops_of (s_ops db) D).
Proof. intros H Hv. unfold log_docs. apply sorted_split; [eapply log_sorted; exact H|exact Hv]. Qed.

(* a later store whose log of D extends the earlier one has the same operations 1..v for every v up to the earlier end *)
Lemma log_docs_extend db db' D E E' v :
  map od_sseq (ops_of (s_ops db) D) = nseq 1 (N.to_nat E) ->
  map od_sseq (ops_of (s_ops db') D) = nseq 1 (N.to_nat E') ->
  (exists new, s_ops db' = s_ops db ++ new) -> v <= E ->
  log_docs db' D v = log_docs db D v.
Proof.
  intros H H' [new Hn] Hv. unfold log_docs. rewrite Hn, ops_of_app, filter_app'.
  assert (Z : filter (fun o => od_sseq o <=? v) (ops_of new D) = []).
  { apply filter_none. intros o Ho. apply N.leb_gt.
    rewrite Hn, ops_of_app, map_app in H'.
    pose proof (nseq_inc 1 (N.to_nat E')) as Hinc. rewrite <- H' in Hinc.
    destruct (strictinc_app_inv _ _ Hinc) as [_ [_ C]].
    destruct (N.eq_dec E 0) as [E0|E0].
    - assert (In (od_sseq o) (nseq 1 (N.to_nat E'))) by (rewrite <- H'; apply in_or_app; right; apply in_map; exact Ho).
      apply nseq_in in H0. lia.
    - assert (HE : In E (map od_sseq (ops_of (s_ops db) D))) by (rewrite H; apply nseq_in; lia).
      specialize (C E (od_sseq o) HE (in_map od_sseq _ _ Ho)). lia. }
  rewrite Z, app_nil_r. reflexivity.
Qed.

Lemma last_map {A} (f : A -> N) (l : list A) d : l <> [] -> last (map f l) 0 = f (last l d).
Proof.
  induction l as [|a l IH]; [congruence|]. intros _. destruct l as [|b l']; [reflexivity|].
  change (last (map f (a :: b :: l')) 0) with (last (map f (b :: l')) 0).
  change (last (a :: b :: l') d) with (last (b :: l') d). apply IH. discriminate.
Qed.

(* the last operation in the range (v0, e] of a gapless log is the one numbered e *)
Lemma last_of_range (l : list odoc) v0 e :
  StrictInc (map od_sseq l) -> In e (map od_sseq l) -> v0 < e ->
  match rev (filter (fun o => (v0 <? od_sseq o) && (od_sseq o <=? e)) l) with
  | [] => False
  | lst :: _ => od_sseq lst = e
  end.
Proof.
  intros Hs He Hv. set (m := filter _ l).
  apply in_map_iff in He. destruct He as [o [Eo Ho]].
  assert (Hm : In o m).
  { apply filter_In. split; [exact Ho|]. rewrite Eo. apply andb_true_iff. split; [apply N.ltb_lt; lia|apply N.leb_le; lia]. }
  assert (Hne : m <> []) by (intro Z; rewrite Z in Hm; destruct Hm).
  pose proof (rev_head_last m o) as R. destruct (rev m) as [|lst r] eqn:Er; [congruence|].
  assert (Hl : In lst m) by (rewrite R; apply last_in; exact Hne).
  apply filter_In in Hl. destruct Hl as [_ Hl]. apply andb_true_iff in Hl. destruct Hl as [_ Hl]. apply N.leb_le in Hl.
  assert (Hinc : StrictInc (map od_sseq m)).
  { unfold m. rewrite (map_filter_comm od_sseq (fun s => (v0 <? s) && (s <=? e))). apply filter_inc. exact Hs. }
  pose proof (inc_last_max _ Hinc e) as Hmax. rewrite (last_map od_sseq m o Hne) in Hmax. rewrite <- R in Hmax.
  assert (In e (map od_sseq m)) by (rewrite <- Eo; apply in_map; exact Hm). specialize (Hmax H). lia.
Qed.

Lemma log_docs_zero db D E : map od_sseq (ops_of (s_ops db) D) = nseq 1 (N.to_nat E) -> log_docs db D 0 = [].
Proof.
  intros H. unfold log_docs. apply filter_none. intros o Ho. apply N.leb_gt.
  assert (In (od_sseq o) (nseq 1 (N.to_nat E))) by (rewrite <- H; apply in_map; exact Ho). apply nseq_in in H0. lia.
Qed.

Section SnapFacts.
  Variable St : Type.
  Variable k_init : St.
  Variable k_remote : St -> op -> St.
  Variable k_marshal : St -> jsnap.
  Variable k_unmarshal : jsnap -> St.
  Variable k_view : St -> val.
  (* the states that occur, and the sense in which a restored state is "the same" (equality for counter and list; the
     same entry under every key for the map, whose Go representation has no order) *)
  Variable good : St -> Prop.
  Variable eqv : St -> St -> Prop.
  Hypothesis good_init : good k_init.
  Hypothesis good_remote : forall s o, good s -> good (k_remote s o).
  Hypothesis good_restore : forall s, good s -> good (k_unmarshal (k_marshal s)).
  Hypothesis eqv_refl : forall s, eqv s s.
  Hypothesis eqv_trans : forall a b c, eqv a b -> eqv b c -> eqv a c.
  Hypothesis eqv_remote : forall a b o, eqv a b -> eqv (k_remote a o) (k_remote b o).
  Hypothesis eqv_restore : forall s, good s -> eqv (k_unmarshal (k_marshal s)) s.
  Hypothesis eqv_view : forall a b, good a -> good b -> eqv a b -> k_view a = k_view b.

  Notation latest_snapshot := (latest_snapshot).
  Notation latest_datatype := (latest_datatype St k_init k_remote k_unmarshal).
  Notation update_snapshot := (update_snapshot St k_init k_remote k_marshal k_unmarshal k_view).

  (* the state obtained by replaying log operations 1..v *)
  Definition replay (db : sdb) (D : str) (v : N) : St := fold_left k_remote (log_upto db D v) k_init.

  Lemma fold_good l : forall s, good s -> good (fold_left k_remote l s).
  Proof. induction l as [|o l IH]; intros s H; cbn; [exact H|]. apply IH, good_remote, H. Qed.
  Lemma fold_eqv l : forall a b, eqv a b -> eqv (fold_left k_remote l a) (fold_left k_remote l b).
  Proof. induction l as [|o l IH]; intros a b H; cbn; [exact H|]. apply IH, eqv_remote, H. Qed.
  Lemma replay_good db D v : good (replay db D v).
  Proof. apply fold_good, good_init. Qed.

  Definition snap_matches (D : str) (c : N) (sn : snapdoc) : bool := str_eqb (sn_duid sn) D && N.eqb (sn_col sn) c.

  Lemma latest_fold D c snaps : forall best,
    let r := fold_left (fun best sn => if str_eqb (sn_duid sn) D && N.eqb (sn_col sn) c
                                       then match best with
                                            | Some b => if sn_sseq b <? sn_sseq sn then Some sn else best
                                            | None => Some sn
                                            end
                                       else best) snaps best in
    match r with
    | Some sn => (In sn snaps /\ snap_matches D c sn = true \/ best = Some sn) /\
                 (forall b, best = Some b -> sn_sseq b <= sn_sseq sn) /\
                 (forall x, In x snaps -> snap_matches D c x = true -> sn_sseq x <= sn_sseq sn)
    | None => best = None /\ forall x, In x snaps -> snap_matches D c x = false
    end.
  Proof.
    induction snaps as [|sn snaps IH]; intros best; cbn [fold_left].
    - cbn. destruct best as [b|]; [|split; [reflexivity|intros x []]].
      split; [right; reflexivity|]. split; [intros b' [= <-]; lia|intros x []].
    - set (nb := if str_eqb (sn_duid sn) D && N.eqb (sn_col sn) c then _ else best).
      specialize (IH nb). cbv zeta in IH |- *.
      destruct (fold_left _ snaps nb) as [r|].
      + destruct IH as [I1 [I2 I3]]. unfold nb in I1, I2. unfold snap_matches in *.
        destruct (str_eqb (sn_duid sn) D && N.eqb (sn_col sn) c) eqn:Em.
        * destruct best as [b|].
          -- destruct (N.ltb_spec (sn_sseq b) (sn_sseq sn)) as [Hlt|Hge].
             ++ split; [|split].
                ** destruct I1 as [[I1 I1m]|I1]; [left; split; [right; exact I1|exact I1m]|]. injection I1 as <-. left. split; [left; reflexivity|exact Em].
                ** intros b' [= <-]. specialize (I2 sn eq_refl). lia.
                ** intros x [<-|Hx] Hm; [apply (I2 _ eq_refl)|apply I3; assumption].
             ++ split; [|split].
                ** destruct I1 as [[I1 I1m]|I1]; [left; split; [right; exact I1|exact I1m]|right; exact I1].
                ** intros b' [= <-]. apply (I2 _ eq_refl).
                ** intros x [<-|Hx] Hm; [specialize (I2 _ eq_refl); lia|apply I3; assumption].
          -- split; [|split].
             ++ destruct I1 as [[I1 I1m]|I1]; [left; split; [right; exact I1|exact I1m]|]. injection I1 as <-. left. split; [left; reflexivity|exact Em].
             ++ intros b' [=].
             ++ intros x [<-|Hx] Hm; [apply (I2 _ eq_refl)|apply I3; assumption].
        * split; [|split].
          -- destruct I1 as [[I1 I1m]|I1]; [left; split; [right; exact I1|exact I1m]|right; exact I1].
          -- exact I2.
          -- intros x [<-|Hx] Hm; [congruence|apply I3; assumption].
      + destruct IH as [I1 I2]. unfold nb in I1. unfold snap_matches in *.
        destruct (str_eqb (sn_duid sn) D && N.eqb (sn_col sn) c) eqn:Em.
        * destruct best as [b|]; [destruct (sn_sseq b <? sn_sseq sn)|]; discriminate.
        * split; [exact I1|]. intros x [<-|Hx]; [exact Em|apply I2; exact Hx].
  Qed.

  Lemma latest_some ss D c sn : latest_snapshot ss D c = Some sn ->
    In sn (ss_snaps ss) /\ sn_duid sn = D /\ sn_col sn = c /\
    forall x, In x (ss_snaps ss) -> snap_matches D c x = true -> sn_sseq x <= sn_sseq sn.
  Proof.
    unfold SnapSrv.latest_snapshot. intros H. pose proof (latest_fold D c (ss_snaps ss) None) as L. cbv zeta in L. rewrite H in L.
    destruct L as [[[L1 Lm]|L1] [_ L3]]; [|discriminate]. unfold snap_matches in Lm. apply andb_true_iff in Lm. destruct Lm as [M1 M2].
    apply str_eqb_eq in M1. apply N.eqb_eq in M2. auto.
  Qed.
  Lemma latest_none ss D c : latest_snapshot ss D c = None -> forall x, In x (ss_snaps ss) -> snap_matches D c x = false.
  Proof.
    unfold SnapSrv.latest_snapshot. intros H. pose proof (latest_fold D c (ss_snaps ss) None) as L. cbv zeta in L. rewrite H in L. apply L.
  Qed.

  (* a stored snapshot is right: it belongs to a datatype, its version lies within the log, and it restores
     to the state obtained by replaying log operations 1..version *)
  Definition snap_ok (db : sdb) (sn : snapdoc) : Prop :=
    exists d', find_dt db (sn_duid sn) = Some d' /\ sn_col sn = dd_col d' /\ sn_sseq sn <= dd_end d' /\
               eqv (k_unmarshal (sn_snap sn)) (replay db (sn_duid sn) (sn_sseq sn)) /\ good (k_unmarshal (sn_snap sn)).

  (* GetLatestDatatype, called with a datatype document [d] captured at or before the current state of the store:
     it returns the replay of operations 1..v where v is the larger of the captured end and the latest snapshot *)
  Lemma latest_datatype_spec db ss d d' :
    LogInv db -> find_dt db (dd_duid d) = Some d' -> dd_col d = dd_col d' -> dd_end d <= dd_end d' ->
    (forall sn, In sn (ss_snaps ss) -> snap_ok db sn) ->
    let '(st, v) := latest_datatype db ss d in
    good st /\ eqv st (replay db (dd_duid d) v) /\ v <= dd_end d' /\ dd_end d <= v /\
    (forall x, In x (ss_snaps ss) -> snap_matches (dd_duid d) (dd_col d) x = true -> sn_sseq x <= v) /\
    (v = dd_end d \/ has_snapshot ss (dd_duid d) v = true).
  Proof.
    intros HL Hf Hc He Hs. set (D := dd_duid d) in *.
    destruct (find_dt_spec _ _ _ Hf) as [Hin HD]. pose proof (di_sseq _ _ (li_dt _ HL _ Hin)) as Hseq. rewrite HD in Hseq.
    unfold SnapSrv.latest_datatype. fold D.
    (* the starting point *)
    assert (S0 : exists s0 v0,
      (match latest_snapshot ss D (dd_col d) with Some sn => (k_unmarshal (sn_snap sn), sn_sseq sn) | None => (k_init, 0) end) = (s0, v0) /\
      good s0 /\ eqv s0 (replay db D v0) /\ v0 <= dd_end d' /\
      (forall x, In x (ss_snaps ss) -> snap_matches D (dd_col d) x = true -> sn_sseq x <= v0) /\
      (v0 = 0 \/ has_snapshot ss D v0 = true)).
    { destruct (latest_snapshot ss D (dd_col d)) as [sn|] eqn:El.
      - destruct (latest_some _ _ _ _ El) as [L1 [L2 [L3 L4]]]. destruct (Hs sn L1) as [d2 [F1 [F2 [F3 [F4 F5]]]]].
        rewrite L2, Hf in F1. injection F1 as <-. rewrite L2 in F4.
        exists (k_unmarshal (sn_snap sn)), (sn_sseq sn). repeat split; auto. right.
        unfold has_snapshot. apply existsb_exists. exists sn. split; [exact L1|]. rewrite L2, str_eqb_refl, N.eqb_refl. reflexivity.
      - pose proof (latest_none _ _ _ El) as L. exists k_init, 0. repeat split; auto.
        + unfold replay, log_upto. rewrite (log_docs_zero db D _ Hseq). cbn. apply eqv_refl.
        + lia.
        + intros x Hx Hm. rewrite (L x Hx) in Hm. discriminate. }
    destruct S0 as [s0 [v0 [E0 [G0 [Q0 [B0 [M0 P0]]]]]]]. rewrite E0.
    rewrite (later_ops db D _ v0 (dd_end d) Hseq).
    set (mid := filter (fun o => (v0 <? od_sseq o) && (od_sseq o <=? dd_end d)) (ops_of (s_ops db) D)).
    destruct (N.le_gt_cases (dd_end d) v0) as [Hle|Hgt].
    - (* the latest snapshot already covers the captured end: nothing to replay *)
      assert (Z : mid = []).
      { apply filter_none. intros o _. destruct (N.ltb_spec v0 (od_sseq o)); destruct (N.leb_spec (od_sseq o) (dd_end d)); try reflexivity; lia. }
      rewrite Z. cbn. repeat split; auto. destruct P0 as [->|P0]; [left; lia|right; exact P0].
    - assert (Hin_e : In (dd_end d) (map od_sseq (ops_of (s_ops db) D))) by (rewrite Hseq; apply nseq_in; lia).
      pose proof (last_of_range (ops_of (s_ops db) D) v0 (dd_end d) (log_sorted _ _ _ Hseq) Hin_e Hgt) as Hlast. fold mid in Hlast.
      destruct (rev mid) as [|lst r] eqn:Er; [destruct Hlast|]. rewrite Hlast.
      assert (Hrep : replay db D (dd_end d) = fold_left k_remote (map od_op mid) (replay db D v0)).
      { unfold replay, log_upto. rewrite (log_docs_split db D _ v0 (dd_end d) Hseq) by lia. fold mid.
        rewrite map_app, fold_left_app. reflexivity. }
      repeat split.
      + apply fold_good, G0.
      + rewrite Hrep. apply fold_eqv, Q0.
      + exact He.
      + lia.
      + intros x Hx Hm. specialize (M0 x Hx Hm). lia.
      + left. reflexivity.
  Qed.

  (* ---------- the user-visible documents ---------- *)
  Definition rk_eqb (a b : realdoc) : bool := str_eqb (rl_col a) (rl_col b) && str_eqb (rl_key a) (rl_key b).
  Definition rkey (r : realdoc) : str * str := (rl_col r, rl_key r).
  Lemma rk_eqb_eq a b : rk_eqb a b = true <-> rkey a = rkey b.
  Proof.
    unfold rk_eqb, rkey. rewrite andb_true_iff, !str_eqb_eq. split; [intros [-> ->]; reflexivity|intros [= -> ->]; auto].
  Qed.
  Lemma rk_eqb_neq a b : rk_eqb a b = false <-> rkey a <> rkey b.
  Proof. rewrite <- rk_eqb_eq. destruct (rk_eqb a b); split; congruence. Qed.

  Lemma upsert_real_keys l n :
    map rkey (upsert_real l n) = if existsb (fun x => rk_eqb x n) l then map rkey l else map rkey l ++ [rkey n].
  Proof.
    induction l as [|x l IH]; cbn; [reflexivity|]. fold (rk_eqb x n).
    destruct (rk_eqb x n) eqn:E; cbn.
    - apply rk_eqb_eq in E. rewrite E. reflexivity.
    - rewrite IH. destruct (existsb _ l); reflexivity.
  Qed.
  Lemma upsert_real_nodup l n : NoDup (map rkey l) -> NoDup (map rkey (upsert_real l n)).
  Proof.
    intros H. rewrite upsert_real_keys. destruct (existsb _ l) eqn:E; [exact H|].
    apply nodup_snoc'; [exact H|]. intros Hin. apply in_map_iff in Hin. destruct Hin as [x [Ex Hx]].
    assert (existsb (fun x => rk_eqb x n) l = true) by (apply existsb_exists; exists x; split; [exact Hx|apply rk_eqb_eq; exact Ex]).
    congruence.
  Qed.
  Lemma upsert_real_in l n x : NoDup (map rkey l) -> In x (upsert_real l n) -> x = n \/ (In x l /\ rkey x <> rkey n).
  Proof.
    induction l as [|y l IH]; cbn; intros Hnd.
    - intros [<-|[]]. left. reflexivity.
    - inversion Hnd as [|? ? Hn Hd]; subst. fold (rk_eqb y n). destruct (rk_eqb y n) eqn:E.
      + apply rk_eqb_eq in E. intros [<-|Hin]; [left; reflexivity|]. right. split; [right; exact Hin|].
        intros E2. apply Hn. rewrite E, <- E2. apply in_map. exact Hin.
      + apply rk_eqb_neq in E. intros [<-|Hin]; [right; split; [left; reflexivity|exact E]|].
        destruct (IH Hd Hin) as [->|[H1 H2]]; [left; reflexivity|right; split; [right; exact H1|exact H2]].
  Qed.

  (* the version recorded in the document kept under (collection, key) *)
  Definition real_find (ss : snapstore) (col key : str) : option realdoc :=
    find (fun r => str_eqb (rl_col r) col && str_eqb (rl_key r) key) (ss_real ss).
  Definition real_ver (ss : snapstore) (col key : str) : option N := option_map rl_ver (real_find ss col key).

  Lemma find_upsert_real l n col key :
    find (fun r => str_eqb (rl_col r) col && str_eqb (rl_key r) key) (upsert_real l n) =
    if str_eqb (rl_col n) col && str_eqb (rl_key n) key then
      match find (fun r => str_eqb (rl_col r) col && str_eqb (rl_key r) key) l with
      | Some r => Some (if rk_eqb r n then n else r) | None => Some n end
    else find (fun r => str_eqb (rl_col r) col && str_eqb (rl_key r) key) l.
  Proof.
    induction l as [|x l IH]; cbn.
    - destruct (str_eqb (rl_col n) col && str_eqb (rl_key n) key); reflexivity.
    - fold (rk_eqb x n). destruct (rk_eqb x n) eqn:E.
      + pose proof E as E'. apply rk_eqb_eq in E'. injection E' as E1 E2. cbn. rewrite E1, E2.
        destruct (str_eqb (rl_col n) col && str_eqb (rl_key n) key); [rewrite E|]; reflexivity.
      + cbn. destruct (str_eqb (rl_col x) col && str_eqb (rl_key x) key) eqn:Ex.
        * destruct (str_eqb (rl_col n) col && str_eqb (rl_key n) key) eqn:En; [|reflexivity].
          exfalso. apply andb_true_iff in Ex, En. destruct Ex as [X1 X2], En as [N1 N2].
          apply str_eqb_eq in X1, X2, N1, N2. apply rk_eqb_neq in E. apply E. unfold rkey. congruence.
        * exact IH.
  Qed.

  Definition real_ok (db : sdb) (ss : snapstore) (r : realdoc) : Prop :=
    exists d' st, In d' (s_dts db) /\ alookup str_eqb (rl_col r) (s_cols db) = Some (dd_col d') /\ dd_key d' = rl_key r /\
      rl_ver r <= dd_end d' /\ good st /\ eqv st (replay db (dd_duid d') (rl_ver r)) /\ rl_view r = k_view st /\
      has_snapshot ss (dd_duid d') (rl_ver r) = true /\
      (forall x, In x (ss_snaps ss) -> sn_duid x = dd_duid d' -> sn_sseq x <= rl_ver r).

  (* C11, as an invariant of the store: every snapshot restores to the replay of operations 1..version; every user
     document is the JSON view of the replay of operations 1..(its recorded version), which is the newest snapshot *)
  Record SnapInv (db : sdb) (ss : snapstore) : Prop := {
    si_snaps : forall sn, In sn (ss_snaps ss) -> snap_ok db sn;
    si_real : forall r, In r (ss_real ss) -> real_ok db ss r;
    si_keys : NoDup (map rkey (ss_real ss))
  }.

  (* a snapshot update runs with the datatype document its handler held when it finished: possibly stale by now *)
  Definition job_ok (db : sdb) (colname : str) (d : ddoc) : Prop :=
    exists d', find_dt db (dd_duid d) = Some d' /\ dd_col d = dd_col d' /\ dd_key d = dd_key d' /\
               dd_end d <= dd_end d' /\ alookup str_eqb colname (s_cols db) = Some (dd_col d').

  Lemma alookup_in {V} k (l : list (str * V)) v : alookup str_eqb k l = Some v -> In (k, v) l.
  Proof.
    induction l as [|[k' v'] l IH]; cbn; [discriminate|]. destruct (str_eqb k k') eqn:E.
    - apply str_eqb_eq in E. intros [= ->]. left. congruence.
    - intros H. right. apply IH, H.
  Qed.
  Lemma col_injective db a b n : NoDup (map snd (s_cols db)) ->
    alookup str_eqb a (s_cols db) = Some n -> alookup str_eqb b (s_cols db) = Some n -> a = b.
  Proof.
    intros Hnd Ha Hb. apply alookup_in in Ha, Hb.
    assert (E : (a, n) = (b, n)) by (eapply (nodup_map_in_inj snd); eauto). congruence.
  Qed.

  Lemma has_snapshot_app ss extra D v :
    has_snapshot ss D v = true -> has_snapshot (mkSnapstore (ss_snaps ss ++ extra) (ss_real ss)) D v = true.
  Proof. unfold has_snapshot. cbn. rewrite existsb_app. intros ->. reflexivity. Qed.

  Lemma snap_ok_col db ss x d' :
    LogInv db -> (forall sn, In sn (ss_snaps ss) -> snap_ok db sn) -> In x (ss_snaps ss) ->
    find_dt db (sn_duid x) = Some d' -> snap_matches (sn_duid x) (dd_col d') x = true.
  Proof.
    intros _ Hs Hx Hf. destruct (Hs x Hx) as [d2 [F1 [F2 _]]]. rewrite Hf in F1. injection F1 as <-.
    unfold snap_matches. rewrite str_eqb_refl, F2, N.eqb_refl. reflexivity.
  Qed.

  (* one snapshot update, run at any later time with a possibly stale datatype document, keeps the invariant, and
     no user document's recorded version decreases *)
  Theorem update_snapshot_inv db ss colname d :
    LogInv db -> NoDup (map snd (s_cols db)) -> SnapInv db ss -> job_ok db colname d ->
    SnapInv db (update_snapshot db ss colname d) /\
    (forall col key v1, real_ver ss col key = Some v1 ->
       exists v2, real_ver (update_snapshot db ss colname d) col key = Some v2 /\ v1 <= v2).
  Proof.
    intros HL Hcol [I1 I2 I3] [d' [Hf [Hc [Hk [He Hcn]]]]].
    pose proof (latest_datatype_spec db ss d d' HL Hf Hc He I1) as S.
    unfold SnapSrv.update_snapshot. destruct (latest_datatype db ss d) as [st v].
    destruct S as [G [Q [B [Ev [M P]]]]].
    destruct (has_snapshot ss (dd_duid d) v) eqn:Eh.
    { split; [constructor; assumption|]. intros col key v1 H. exists v1. split; [exact H|lia]. }
    destruct (find_dt_spec _ _ _ Hf) as [Hin HD].
    set (nsn := mkSnapdoc (dd_duid d) (dd_col d) v (k_marshal st)).
    set (nr := mkRealdoc colname (dd_key d) (k_view st) v).
    set (ss' := mkSnapstore (ss_snaps ss ++ [nsn]) (upsert_real (ss_real ss) nr)).
    assert (Hnew : snap_ok db nsn).
    { exists d'. cbn. split; [exact Hf|]. split; [exact Hc|]. split; [exact B|].
      split; [eapply eqv_trans; [apply eqv_restore; exact G|exact Q]|apply good_restore, G]. }
    assert (Hmax : forall x, In x (ss_snaps ss ++ [nsn]) -> sn_duid x = dd_duid d -> sn_sseq x <= v).
    { intros x Hx Hxd. apply in_app_or in Hx. destruct Hx as [Hx|[<-|[]]]; [|cbn; lia].
      apply M; [exact Hx|]. rewrite <- Hxd, Hc. apply (snap_ok_col db ss); auto. rewrite Hxd. exact Hf. }
    assert (Hnr : real_ok db ss' nr).
    { exists d', st. cbn. split; [exact Hin|]. split; [exact Hcn|]. split; [congruence|]. split; [exact B|].
      split; [exact G|]. split; [rewrite HD; exact Q|]. split; [reflexivity|]. split.
      - unfold has_snapshot. cbn. rewrite existsb_app. cbn. rewrite HD, str_eqb_refl, N.eqb_refl. cbn. apply orb_true_r.
      - rewrite HD. exact Hmax. }
    split.
    - constructor.
      + cbn. intros sn Hsn. apply in_app_or in Hsn. destruct Hsn as [Hsn|[<-|[]]]; [apply I1; exact Hsn|exact Hnew].
      + cbn. intros r Hr. destruct (upsert_real_in _ _ _ I3 Hr) as [->|[Hr1 Hr2]]; [exact Hnr|].
        destruct (I2 r Hr1) as [d2 [st2 [R1 [R2 [R3 [R4 [R5 [R6 [R7 [R8 R9]]]]]]]]]].
        exists d2, st2. do 7 (split; [assumption|]). split.
        * apply (has_snapshot_app ss [nsn]) in R8. exact R8.
        * intros x Hx Hxd. cbn in Hx. apply in_app_or in Hx. destruct Hx as [Hx|[<-|[]]]; [apply R9; assumption|].
          (* the new snapshot belongs to another datatype: otherwise r would be the document that was replaced *)
          exfalso. cbn in Hxd. apply Hr2.
          assert (d2 = d').
          { eapply (nodup_map_in_inj dd_duid); [apply (li_nodup _ HL)|exact R1|exact Hin|congruence]. }
          subst d2. unfold rkey. cbn. f_equal; [|congruence].
          eapply col_injective; eauto.
      + cbn. apply upsert_real_nodup, I3.
    - intros col key v1 H. unfold real_ver, real_find in *. cbn [ss_real ss']. rewrite find_upsert_real.
      destruct (find _ (ss_real ss)) as [r|] eqn:Er; [|discriminate]. cbn in H. injection H as <-.
      cbn [rl_col rl_key nr]. destruct (str_eqb colname col && str_eqb (dd_key d) key) eqn:En.
      + apply find_some in Er. destruct Er as [Er1 Er2].
        apply andb_true_iff in En, Er2. destruct En as [N1 N2], Er2 as [X1 X2]. apply str_eqb_eq in N1, N2, X1, X2.
        assert (Ek : rk_eqb r nr = true) by (apply rk_eqb_eq; unfold rkey; cbn; congruence).
        rewrite Ek. cbn. exists v. split; [reflexivity|].
        destruct (I2 r Er1) as [d2 [st2 [R1 [R2 [R3 [R4 [R5 [R6 [R7 [R8 R9]]]]]]]]]].
        assert (d2 = d').
        { apply (li_key _ HL); auto; [|congruence]. rewrite X1, <- N1, Hcn in R2. congruence. }
        subst d2. unfold has_snapshot in R8. apply existsb_exists in R8. destruct R8 as [x [Hx1 Hx2]].
        apply andb_true_iff in Hx2. destruct Hx2 as [Y1 Y2]. apply str_eqb_eq in Y1. apply N.eqb_eq in Y2.
        rewrite <- Y2. apply Hmax; [apply in_or_app; left; exact Hx1|congruence].
      + cbn. exists (rl_ver r). split; [reflexivity|lia].
  Qed.

  (* ---------- the store moves on: the log of every datatype only grows ---------- *)
  Definition extends (db db' : sdb) : Prop :=
    (forall c n, alookup str_eqb c (s_cols db) = Some n -> alookup str_eqb c (s_cols db') = Some n) /\
    (forall D d, find_dt db D = Some d ->
       exists d', find_dt db' D = Some d' /\ dd_col d' = dd_col d /\ dd_key d' = dd_key d /\ dd_end d <= dd_end d' /\
                  forall v, v <= dd_end d -> log_docs db' D v = log_docs db D v).

  Lemma extends_refl db : extends db db.
  Proof. split; [auto|]. intros D d H. exists d. repeat split; auto. lia. Qed.
  Lemma extends_trans a b c : extends a b -> extends b c -> extends a c.
  Proof.
    intros [A1 A2] [B1 B2]. split; [auto|]. intros D d H.
    destruct (A2 D d H) as [d1 [F1 [C1 [K1 [E1 L1]]]]]. destruct (B2 D d1 F1) as [d2 [F2 [C2 [K2 [E2 L2]]]]].
    exists d2. split; [exact F2|]. split; [congruence|]. split; [congruence|]. split; [lia|].
    intros v Hv. rewrite L2 by lia. apply L1, Hv.
  Qed.
  Lemma extends_same_tables db db' : s_cols db' = s_cols db -> s_dts db' = s_dts db -> s_ops db' = s_ops db -> extends db db'.
  Proof.
    intros E1 E2 E3. split; [rewrite E1; auto|]. intros D d H. exists d. unfold find_dt, log_docs in *. rewrite E2, E3.
    repeat split; auto. lia.
  Qed.

  Lemma find_upsert_dt l d D :
    find (fun x => str_eqb (dd_duid x) D) (upsert_dt l d) =
    if str_eqb (dd_duid d) D then Some d else find (fun x => str_eqb (dd_duid x) D) l.
  Proof.
    induction l as [|x l IH]; cbn.
    - destruct (str_eqb (dd_duid d) D); reflexivity.
    - destruct (str_eqb (dd_duid x) (dd_duid d)) eqn:E; cbn.
      + apply str_eqb_eq in E. rewrite E. destruct (str_eqb (dd_duid d) D); reflexivity.
      + destruct (str_eqb (dd_duid x) D) eqn:Ex.
        * apply str_eqb_eq in Ex. subst D. rewrite str_eqb_sym, E. reflexivity.
        * exact IH.
  Qed.

  Lemma pack_extends db colname col cuid out :
    LogInv db -> pack_post db colname col cuid out -> extends db (fst (fst out)).
  Proof.
    intros HL. destruct out as [[db' resp] pubs]. cbn [fst]. intros [HL' [[T1 _] P]].
    destruct (p_err resp).
    - destruct P as [-> _]. apply extends_refl.
    - destruct P as [d1 [new [P1 [P2 [P3 [P4 [_ P6]]]]]]]. split; [rewrite T1; auto|].
      intros D d Hf. unfold find_dt. rewrite P2, find_upsert_dt. destruct (find_dt_spec _ _ _ Hf) as [Hin HD].
      pose proof (di_sseq _ _ (li_dt _ HL _ Hin)) as Hseq. rewrite HD in Hseq.
      destruct (str_eqb (dd_duid d1) D) eqn:E.
      + apply str_eqb_eq in E. exists d1. split; [reflexivity|].
        destruct (P6 d Hin (eq_trans HD (eq_sym E))) as [Q1 Q2].
        assert (Hin1 : In d1 (s_dts db')) by (rewrite P2; apply upsert_in; [apply (li_nodup _ HL)|left; reflexivity]).
        pose proof (di_sseq _ _ (li_dt _ HL' _ Hin1)) as Hseq'. rewrite E in Hseq'.
        split; [congruence|]. split; [congruence|].
        assert (Hend : dd_end d <= dd_end d1).
        { pose proof (f_equal (@length N) Hseq') as L'. pose proof (f_equal (@length N) Hseq) as L.
          rewrite map_length, nseq_length in L, L'. rewrite P1, ops_of_app, app_length in L'. lia. }
        split; [exact Hend|]. intros v Hv. eapply log_docs_extend; eauto.
      + apply str_eqb_neq in E. exists d. split; [exact Hf|]. repeat split; try lia.
        intros v _. unfold log_docs. rewrite P1, ops_of_app.
        rewrite (ops_of_none new (dd_duid d1) D E); [rewrite app_nil_r; reflexivity|].
        eapply Forall_impl; [|exact P3]. intros o [Ho _]. exact Ho.
  Qed.

  Lemma alookup_app_some {V} k (l1 l2 : list (str * V)) v : alookup str_eqb k l1 = Some v -> alookup str_eqb k (l1 ++ l2) = Some v.
  Proof. induction l1 as [|[k' v'] l1 IH]; cbn; [discriminate|]. destruct (str_eqb k k'); auto. Qed.

  Lemma fold_packs_extends colname col cuid packs : forall db acc,
    LogInv db ->
    extends db (fst (fold_left (fun '(db, acc) req =>
                   let '(db', resp, pubs) := handle_pack db colname col cuid req in
                   (db', acc ++ [(resp, pubs)])) packs (db, acc))).
  Proof.
    induction packs as [|p packs IH]; intros db acc H; cbn [fold_left]; [apply extends_refl|].
    pose proof (handle_pack_spec db colname col cuid p H) as S.
    pose proof (pack_extends db colname col cuid _ H S) as X.
    destruct (handle_pack db colname col cuid p) as [[db' resp] pubs]. cbn [fst] in X.
    eapply extends_trans; [exact X|]. apply IH. apply S.
  Qed.

  Theorem serve_extends db r : LogInv db -> extends db (serve db r).
  Proof.
    intros H. destruct r as [name|col cuid|col cuid packs]; cbn [serve].
    - unfold create_collection. destruct (alookup str_eqb name (s_cols db)); [apply extends_refl|].
      split; cbn; [intros c n Hc; apply alookup_app_some, Hc|]. intros D d Hf. exists d. unfold find_dt, log_docs in *. cbn.
      repeat split; auto. lia.
    - unfold process_client. destruct (alookup str_eqb col (s_cols db)); [|apply extends_refl].
      destruct (alookup str_eqb cuid (s_clients db)) as [ccol|]; [destruct (N.eqb ccol n); apply extends_refl|].
      apply extends_same_tables; reflexivity.
    - unfold process_pushpull, process_pushpull_f; fold handle_pack. destruct (alookup str_eqb col (s_cols db)) as [n|]; [|apply extends_refl].
      destruct (alookup str_eqb cuid (s_clients db)) as [ccol|]; [|apply extends_refl].
      destruct (N.eqb ccol n); [|apply extends_refl].
      pose proof (fold_packs_extends col n cuid packs db [] H) as F.
      destruct (fold_left _ packs (db, [])) as [db' out]. exact F.
  Qed.

  Lemma find_dt_in db d : NoDup (map dd_duid (s_dts db)) -> In d (s_dts db) -> find_dt db (dd_duid d) = Some d.
  Proof.
    intros Hnd Hin. destruct (find_dt db (dd_duid d)) as [d2|] eqn:E.
    - destruct (find_dt_spec _ _ _ E) as [H1 H2]. f_equal. eapply (nodup_map_in_inj dd_duid); eauto.
    - exfalso. apply (find_dt_none _ _ E d Hin). reflexivity.
  Qed.

  Lemma replay_extends db db' D d v :
    extends db db' -> find_dt db D = Some d -> v <= dd_end d -> replay db' D v = replay db D v.
  Proof.
    intros [_ X] Hf Hv. destruct (X D d Hf) as [d' [_ [_ [_ [_ L]]]]]. unfold replay, log_upto. rewrite (L v Hv). reflexivity.
  Qed.

  (* the invariant survives every later request: stored operations are never rewritten *)
  Lemma snapinv_extends db db' ss : LogInv db -> extends db db' -> SnapInv db ss -> SnapInv db' ss.
  Proof.
    intros HL X [I1 I2 I3]. constructor; [| |exact I3].
    - intros sn Hsn. destruct (I1 sn Hsn) as [d [F1 [F2 [F3 [F4 F5]]]]].
      destruct (proj2 X _ _ F1) as [d' [G1 [G2 [G3 [G4 G5]]]]].
      exists d'. split; [exact G1|]. split; [congruence|]. split; [lia|]. split; [|exact F5].
      rewrite (replay_extends db db' _ d _ X F1 F3). exact F4.
    - intros r Hr. destruct (I2 r Hr) as [d [st [R1 [R2 [R3 [R4 [R5 [R6 [R7 [R8 R9]]]]]]]]]].
      pose proof (find_dt_in db d (li_nodup _ HL) R1) as Hf.
      destruct (proj2 X _ _ Hf) as [d' [G1 [G2 [G3 [G4 G5]]]]]. destruct (find_dt_spec _ _ _ G1) as [Hin' HD'].
      exists d', st. split; [exact Hin'|]. split; [rewrite G2; apply (proj1 X), R2|]. split; [congruence|]. split; [lia|].
      split; [exact R5|]. rewrite HD'. split; [rewrite (replay_extends db db' _ d _ X Hf R4); exact R6|].
      split; [exact R7|]. split; assumption.
  Qed.

  Lemma job_ok_later db db' colname d : extends db db' -> job_ok db colname d -> job_ok db' colname d.
  Proof.
    intros X [d1 [F1 [F2 [F3 [F4 F5]]]]]. destruct (proj2 X _ _ F1) as [d2 [G1 [G2 [G3 [G4 _]]]]].
    exists d2. split; [exact G1|]. split; [congruence|]. split; [congruence|]. split; [lia|]. rewrite G2. apply (proj1 X), F5.
  Qed.

  (* ---------- the system: requests and snapshot updates in any order ---------- *)
  Definition job_okb (db : sdb) (colname : str) (d : ddoc) : bool :=
    match find_dt db (dd_duid d), alookup str_eqb colname (s_cols db) with
    | Some d', Some n => N.eqb (dd_col d) (dd_col d') && str_eqb (dd_key d) (dd_key d') && (dd_end d <=? dd_end d') && N.eqb n (dd_col d')
    | _, _ => false
    end.
  Lemma job_okb_ok db colname d : job_okb db colname d = true -> job_ok db colname d.
  Proof.
    unfold job_okb. destruct (find_dt db (dd_duid d)) as [d'|] eqn:E; [|discriminate].
    destruct (alookup str_eqb colname (s_cols db)) as [n|] eqn:En; [|discriminate].
    rewrite !andb_true_iff. intros [[[H1 H2] H3] H4]. apply N.eqb_eq in H1, H4. apply str_eqb_eq in H2. apply N.leb_le in H3.
    exists d'. subst n. auto.
  Qed.

  (* a step of the server: it serves a request, or one snapshot update runs — for a datatype document captured by
     some earlier handler (same datatype, an end of the log that is not beyond the current one) *)
  Inductive sstep := SServe (r : request) | SUpdate (colname : str) (d : ddoc).
  Definition sstep_run (s : sdb * snapstore) (e : sstep) : sdb * snapstore :=
    match e with
    | SServe r => (serve (fst s) r, snd s)
    | SUpdate c d => if job_okb (fst s) c d then (fst s, update_snapshot (fst s) (snd s) c d) else s
    end.
  Definition srun (steps : list sstep) : sdb * snapstore := fold_left sstep_run steps (sdb_init, snapstore_init).

  Definition SysInv (s : sdb * snapstore) : Prop := LogInv (fst s) /\ ColInv (fst s) /\ SnapInv (fst s) (snd s).

  Lemma sysinv_init : SysInv (sdb_init, snapstore_init).
  Proof.
    split; [apply loginv_init|]. split.
    - split; cbn; [constructor|intros nm n []].
    - constructor; cbn; [intros sn []|intros r []|constructor].
  Qed.
  Lemma sysinv_step s e : SysInv s -> SysInv (sstep_run s e).
  Proof.
    destruct s as [db ss]. intros [HL [HC HS]]. destruct e as [r|c d]; cbn [sstep_run fst snd].
    - split; [apply serve_inv, HL|]. split; [apply colinv_serve; assumption|].
      eapply snapinv_extends; [exact HL|apply serve_extends, HL|exact HS].
    - destruct (job_okb db c d) eqn:E; [|split; [exact HL|split; [exact HC|exact HS]]]. cbn [fst snd].
      split; [exact HL|]. split; [exact HC|]. apply update_snapshot_inv; auto; [apply HC|apply job_okb_ok, E].
  Qed.
  Lemma sysinv_run steps : forall s, SysInv s -> SysInv (fold_left sstep_run steps s).
  Proof. induction steps as [|e steps IH]; intros s H; cbn; [exact H|apply IH, sysinv_step, H]. Qed.

  (* C11 (1): in every reachable state, every stored snapshot restores to the replay of log operations 1..version, and
     every user document is the JSON view of the replay of operations 1..(recorded version) *)
  Theorem snapshots_equal_replay steps : SnapInv (fst (srun steps)) (snd (srun steps)).
  Proof. apply (sysinv_run steps _ sysinv_init). Qed.

  (* C11 (2): the version recorded in a user document never decreases, whatever happens later *)
  Lemma version_step s e col key v1 : SysInv s -> real_ver (snd s) col key = Some v1 ->
    exists v2, real_ver (snd (sstep_run s e)) col key = Some v2 /\ v1 <= v2.
  Proof.
    destruct s as [db ss]. intros [HL [HC HS]] H. destruct e as [r|c d]; cbn [sstep_run fst snd] in *.
    - exists v1. split; [exact H|lia].
    - destruct (job_okb db c d) eqn:E; cbn [fst snd]; [|exists v1; split; [exact H|lia]].
      apply (proj2 (update_snapshot_inv db ss c d HL (proj1 HC) HS (job_okb_ok _ _ _ E))). exact H.
  Qed.
  Theorem version_never_decreases steps later col key v1 :
    real_ver (snd (srun steps)) col key = Some v1 ->
    exists v2, real_ver (snd (srun (steps ++ later))) col key = Some v2 /\ v1 <= v2.
  Proof.
    unfold srun. rewrite fold_left_app. pose proof (sysinv_run steps _ sysinv_init) as HI.
    set (s := fold_left sstep_run steps (sdb_init, snapstore_init)) in *. clearbody s. revert s v1 HI.
    induction later as [|e later IH]; intros s v1 HI H; cbn [fold_left]; [exists v1; split; [exact H|lia]|].
    destruct (version_step s e col key v1 HI H) as [v2 [H2 L2]].
    destruct (IH (sstep_run s e) v2 (sysinv_step s e HI) H2) as [v3 [H3 L3]]. exists v3. split; [exact H3|lia].
  Qed.

  (* C11 (3): rebuilding from the latest snapshot plus the later operations gives the same state as replaying the whole log *)
  Theorem rebuild_equals_replay steps D d :
    find_dt (fst (srun steps)) D = Some d ->
    let '(st, v) := latest_datatype (fst (srun steps)) (snd (srun steps)) d in
    v = dd_end d /\ eqv st (replay (fst (srun steps)) D (dd_end d)).
  Proof.
    intros Hf. destruct (sysinv_run steps _ sysinv_init) as [HL [_ HS]]. fold (srun steps) in HL, HS.
    destruct (find_dt_spec _ _ _ Hf) as [_ HD]. rewrite <- HD in Hf.
    pose proof (latest_datatype_spec _ _ d d HL Hf eq_refl (N.le_refl _) (si_snaps _ _ HS)) as S.
    destruct (latest_datatype (fst (srun steps)) (snd (srun steps)) d) as [st v].
    destruct S as [_ [Q [B [Ev _]]]]. assert (v = dd_end d) by lia. subst v. split; [reflexivity|]. rewrite <- HD. exact Q.
  Qed.

  (* the update a handler starts after storing operations is such a step, now and at any later time *)
  Lemma handler_job_ok db colname col d :
    alookup str_eqb colname (s_cols db) = Some col -> find_dt db (dd_duid d) = Some d -> dd_col d = col -> job_ok db colname d.
  Proof. intros H1 H2 H3. exists d. repeat split; auto; [lia|congruence]. Qed.

  (* the readable form of the two invariants *)
  Theorem snapshot_is_replay steps sn : In sn (ss_snaps (snd (srun steps))) ->
    exists d, find_dt (fst (srun steps)) (sn_duid sn) = Some d /\ sn_col sn = dd_col d /\ sn_sseq sn <= dd_end d /\
              eqv (k_unmarshal (sn_snap sn)) (replay (fst (srun steps)) (sn_duid sn) (sn_sseq sn)).
  Proof.
    intros H. destruct (si_snaps _ _ (snapshots_equal_replay steps) sn H) as [d [F1 [F2 [F3 [F4 _]]]]]. exists d. auto.
  Qed.
  Theorem user_document_is_view steps r : In r (ss_real (snd (srun steps))) ->
    exists d, In d (s_dts (fst (srun steps))) /\ alookup str_eqb (rl_col r) (s_cols (fst (srun steps))) = Some (dd_col d) /\
              dd_key d = rl_key r /\ rl_ver r <= dd_end d /\
              rl_view r = k_view (replay (fst (srun steps)) (dd_duid d) (rl_ver r)).
  Proof.
    intros H. destruct (si_real _ _ (snapshots_equal_replay steps) r H) as [d [st [R1 [R2 [R3 [R4 [R5 [R6 [R7 _]]]]]]]]].
    exists d. repeat split; auto. rewrite R7. apply eqv_view; [exact R5|apply replay_good|exact R6].
  Qed.
End SnapFacts.
