HOOK_COMMITS = []
NOT_APPLICABLE = {}
TB = ("Trusted: Coq 8.16.1 kernel + vm_compute (no native_compute, no axioms: every property theorem prints 'Closed under the global context'); "
      "the hand-written Gallina model, tied to /repo only by the correspondence check of each run (sampled behaviours); the Go harness (generators, oracles) ")
TEXTS = {
 "C15": {
  "text": "Theorems over the Gallina model of timestamp.go/operation_id.go: the node-table key is injective for all timestamps (unbounded), comparison is a strict total order over distinct operations for all clocks below the half-range wrap (and refuted beyond it by a machine-checked witness). The model is tied to the code on every run by evaluating the implementation's observed Compare/Hash-equality/Next/RollBack/SyncLamport results inside Coq, plus an exhaustive key-collision grid on the implementation.",
  "note": TB + "; clocks assumed < 2^63 / eras < 2^31.",
  "technique": "Coq proof (injectivity by separator splitting + decimal round trip; order by reduction to lexicographic N/string order) + in-Coq differential evaluation",
 },
}
