HOOK_COMMITS = []
NOT_APPLICABLE = {}
TB = ("Trusted: Coq 8.16.1 kernel + vm_compute (no native_compute, no axioms: every property theorem prints 'Closed under the global context'); "
      "the hand-written Gallina model, tied to /repo only by the correspondence check of each run (sampled behaviours); the Go harness (generators, oracles) ")
SRV = ("; the server model (Model/Server.v: evaluatePushPullCase, processSubscribeOrCreate, push/pull/commit over an abstract document store) and the client protocol model (Model/Wire.v) are replayed on every run against the real OrdaService running in process over an in-memory MongoDB/MQTT stand-in and real clients: every request, response, store state and publish must coincide")
TEXTS = {
 "C08": {
  "text": "Theorem C08_fault_is_contained: whichever storage command fails while a pack is served (lookups, pull, and the three writes of the commit), from any consistent store, every datatype document (end of log, all client checkpoints) is unchanged, every stored operation is still stored, the only possible residue is operation documents beyond the recorded end of a log (never handed out, removed by the next commit), and the client gets an error response with nothing published — or the failing command was not reached and the outcome is the fault-free one. On every run a storage command at a random position (collection, client, datatype lookups, pull, purge, insert, update, post-response snapshot work) is made to fail in real client-server histories; request, response and store are replayed on the faulty-handler model, retries follow, and all replicas and the server's rebuild are compared at quiescence.",
  "note": TB + SRV + "; the recovery half (retries restore the fault-free log, C08_statement_list) is exercised, not proved; crash = failing command + lost response; snapshot writes after the response are exercised but not modelled.",
  "technique": "Coq proof (fault containment by case analysis over the handler's command points) + in-Coq differential replay with injected storage faults + quiescence oracle",
 },
 "C14": {
  "text": "Theorems: every JSON-representable value decodes back to itself at any nesting depth; timestamps survive the omission of zero fields; every operation of the 12 body-carrying types encodes to a message that decodes to the same operation (identifier, type, body), also through the stored document where the type travels by name (the two enum tables are proved mutually inverse). On every run 1500 operations built with the public constructors from Go values of every numeric width, pointers, structs, maps, slices and strings over arbitrary code points go through ToModelOperation -> protobuf bytes -> OperationDoc -> BSON bytes -> back -> ModelToOperation and through the encoding-echo service; the produced message is compared with the model's and the decoded operation with the original.",
  "note": TB + "; encoding/json, protobuf, BSON and float64 are exercised, not modelled; known finding: integers beyond 2^53 nested inside container values are not converted to float64 by the sender and so differ after decoding.",
  "technique": "Coq proof (round trips by nested induction; finite enum table by computation) + in-Coq comparison of real encoded messages + Go round-trip oracle",
 },
 "C10": {
  "text": "Theorems over the marshalled snapshot forms (Model/Snapshot.v): for counter and list unmarshal(marshal s) = s exactly (tombstones, update and order timestamps, Size), so every continuation is answered identically; for the map the restored state has the same entry under every key and the same Size, that relation is a congruence for every later remote and local operation (same emitted operation, same returned value), gives the same JSON view, and re-exporting yields the same snapshot (sorting is proved canonical). On every run the snapshot and metadata exported by a real replica after a random multi-replica history are compared field by field with the model's marshalled form, imported into a fresh real instance, re-exported, and original and restored instance are driven side by side with further remote operations.",
  "note": TB + "; Document snapshots (node table, cemetery) are not modelled yet; encoding/json itself is exercised, not modelled.",
  "technique": "Coq proof (round trip, congruence, canonical sorting) + in-Coq comparison of real marshalled snapshots + side-by-side continuation oracle",
 },
 "C11": {
  "text": "Theorems over a system whose steps are, in any order, requests served by the modelled server (any push-pull, client or collection request) and single runs of UpdateSnapshot with the datatype document some earlier handler held (any staleness relative to later pushes, any order of updates): in every reachable state every stored snapshot belongs to a datatype, has a version within its log and restores to the state obtained by replaying log operations 1..version; every user document is the JSON view of the replay of operations 1..(its recorded version) of the datatype named by its collection and key; the recorded version of a user document never decreases over any continuation; rebuilding from the latest snapshot plus the later operations returns the replay of the whole log. Proved generically in the kernel and instantiated for counter, list (exact equality) and map (same entry under every key, same Size, hence the same JSON view). On every run the -_-Snapshots documents and the user-collection documents of the in-memory MongoDB are compared with the model's after every exchange (including storage faults), and an oracle replays operations 1..v with the real datatype code for every new snapshot and every changed user document.",
  "note": TB + "; snapshot updates of one datatype run one at a time (their TryLock: a racing update is skipped, which the model expresses as the step not happening); Document snapshots are covered by the replay oracle only; a storage fault inside the snapshot update is exercised (oracle still applies) but the model then adopts the observed store.",
  "technique": "Coq proof (invariant over all interleavings of requests and stale snapshot updates) + in-Coq comparison of the stored snapshots and user documents + replay oracle in Go",
 },
 "C03": {
  "text": "Theorems: a call failing validation, or rejected by the datatype, returns an error and leaves the entire datatype (readable state, next id, pending operations, checkpoint, rollback point) exactly as it was — generic in the datatype; the counter is a wrapped 32-bit integer; map Put/Remove act on the key and return the old value like a plain map (Remove of an absent key is an error that changes nothing); list Insert/Delete/Update never dereference nil, transform the sequence of readable values exactly like the slice operation, return what it returns, and keep Size equal to the number of readable values. On every run one real replica is driven with valid and invalid calls and reads and compared call by call with the plain Go structure AND with the model.",
  "note": TB + "; Document (JSON tree, child documents, null values, wrong container kind) is not modelled yet — its C03 part is not claimed.",
  "technique": "Coq proof (refinement of the live projection to the plain structure) + in-Coq differential replay + plain-structure oracle in Go",
 },
 "C04": {
  "text": "Theorems per replica and per operation, for all states and arguments: a local insert at index i is readable at index i; every remote operation keeps all existing elements in their relative order; a deleted element is never brought back by any remote operation; local operations change the readable sequence exactly like slice operations (nothing else appears or disappears). On every run real 2..4-replica list histories are replayed on the model, and an oracle follows every element through every replica-moment (no duplicate, no resurrection, same pairwise order everywhere).",
  "note": TB + "; agreement of the order across replicas follows from list convergence (C01), whose list instance is not yet proved; Document arrays are not modelled yet.",
  "technique": "Coq proof (subsequence / tombstone-monotonicity lemmas over the RGA kernel) + in-Coq differential replay + element-tracking oracle",
 },
 "C05": {
  "text": "Machine-checked ingredients of the protocol's convergence: a response never moves a client's checkpoint backwards nor touches its pending operations; what the server hands out is exactly the log entries after the presented checkpoint, once each, in log order; the stored log is a gapless total order in every reachable store; replicas that executed the same operations in any executable orders hold the same state (with the counter/map instances of C01). The full statement over the client-server system (Model/Net.v) is kept as a definition (C05_statement_list), its composition is not yet proved. Every run replays real multi-client histories (create / subscribe / subscribe-or-create at arbitrary points, local calls, syncs) against Net.v event by event and compares all clients and the server's rebuild at quiescence.",
  "note": TB + SRV + "; partial: the system-level theorem is not proved, only its ingredients; manual sync mode only.",
  "technique": "Coq proof of protocol lemmas + in-Coq differential replay of real client-server histories + quiescence oracle",
 },
 "C07": {
  "text": "Machine-checked: the store invariant (gapless exactly-once log) holds for arbitrary request sequences including duplicates and stale checkpoints; outside a subscribe response a client never executes an operation with its own id as remote, wherever it stands in the pulled range; stale responses cannot move the checkpoint back. The full statement (C07_statement_list) is a definition. Every run injects duplicated requests and dropped responses into real client-server histories, replays them on the model, and compares all replicas and the server's rebuild at quiescence.",
  "note": TB + SRV + "; partial: system-level theorem not proved; delayed (out-of-order) responses are not driven by the harness.",
  "technique": "Coq proof of retry-safety lemmas + in-Coq differential replay with injected message faults + quiescence oracle",
 },
 "C06": {
  "text": "Theorem C06_log_invariant: after ANY sequence of requests (arbitrary packs: option bits, checkpoints, DUIDs, operation lists, re-pushes, gaps) every datatype's stored operations carry server sequence numbers exactly 1..End in order, no checkpoint exceeds End, no operation lacks its datatype, DUIDs and (collection,key) are unique — by an invariant proved for the whole handler (all eight cases of the decision, push loop, pull, two-write commit)." ,
  "note": TB + SRV + "; the per-client clause (a client's operations appear in issue order) is so far checked by the oracle on the real store, not proved; concurrency and storage faults are C12/C08.",
  "technique": "Coq proof (store invariant by induction over request sequences) + in-Coq differential replay of real server exchanges + store oracle",
 },
 "C13": {
  "text": "Theorems: subscribing to a missing key, creating an existing key (other type, or same type by anybody but the creator repeating its request), and any entry request on a key of another type are answered with an error and leave the store unchanged; after any request sequence a (collection,key) names at most one datatype. The client-side half (error reaches the error handler, state change reported exactly once, first state of a subscriber) is in the replayed model of ApplyPushPullPack and in the harness oracles.",
  "note": TB + SRV + "; racing SubscribeOrCreate is covered under the serialisation assumption of C12.",
  "technique": "Coq proof (decision table by case analysis + uniqueness invariant) + in-Coq differential replay + handler oracle",
 },
 "C16": {
  "text": "Theorems: a pack answered with an error leaves the entire store unchanged and publishes nothing, in every reachable store; requests refused before a handler runs change nothing; plain push-pulls for unknown or foreign datatypes are refused. Totality (every request is answered, server and client survive) is by construction in the model and is what the harness tests on the real code with per-call deadlines over mutated requests (option bits, DUIDs, checkpoints, operations, types, keys, collections, clients).",
  "note": TB + SRV + "; absence of hangs/crashes in the Go runtime is tested, not proved.",
  "technique": "Coq proof (frame property from the handler specification) + in-Coq differential replay of mutated requests",
 },
 "C17": {
  "text": "Theorems: handling a pack of a client of collection c replaces one datatype document of c and appends operations of that datatype and collection only — every other document and operation is untouched; clients of another collection and DUIDs of another collection's datatypes are refused; distinct collection names never share a number after any request sequence.",
  "note": TB + SRV + "; ResetCollection (purge) is not yet in the model.",
  "technique": "Coq proof (frame + injectivity invariant) + in-Coq differential replay over 1-2 collections with foreign names and DUIDs",
 },
 "C18": {
  "text": "Theorem: a handled pack produces exactly one notification (topic collection/key, pusher id, datatype id, new end of log) iff it stored at least one operation, none otherwise. Publishes recorded at the broker are compared with the model's on every exchange.",
  "note": TB + SRV + "; convergence of realtime clients (second sentence of the property) relies on the protocol results of C05/C07 and is not driven by real realtime clients yet.",
  "technique": "Coq proof (from the handler specification) + in-Coq differential replay of publishes",
 },
 "C09": {
  "text": "Theorems over the model of transaction.go/wired.go/base.go, generic in the CRDT kernel and instantiated for counter, map and list: at any point of any history (valid and invalid calls, committed and aborted transactions, remote operations) an aborted transaction leaves snapshot, next operation id, pending operations and checkpoint unchanged — via the invariant 'replaying rollbackOps on the rollback point reproduces the current state', proved for every event; a committed transaction is one contiguous unit headed by its length; a remote unit is applied entirely or, if truncated / zero / negative / over-counted, not at all. The model is replayed against real replicas (transactions with mixed valid/invalid calls, aborts after remote deliveries, malformed units) on every run; the oracle compares state, id, DUID and pending operations before/after every aborted transaction.",
  "note": TB + "; Document transactions are covered by the generic theorem only once the document kernel is modelled; under-counted headers are indistinguishable from a shorter unit followed by stand-alone operations (stated in DESIGN.md).",
  "technique": "Coq proof (replay invariant by induction over event sequences) + in-Coq differential replay + before/after oracle",
 },
 "C01": {
  "text": "Theorems: counter — any two orders of the same operations give the same value; map — in every reachable state of the abstract replicated system (N replicas, one log, arbitrary interleaving of generate/push/deliver) replicas with the same applied operations agree on every key (value/tombstone/timestamp) and on Size, obtained from a datatype-independent theorem (executable permutations of duplicate-free operations agree) instantiated with the map kernel's commutation lemmas. The kernels are the executable model functions that the correspondence check replays, event by event, against 2..4 real replicas (views, sizes, results, emitted operations) on every run; an oracle compares real replicas whenever their applied sets coincide.",
  "note": TB + "; list and document instances of the convergence theorem are not yet proved (their correspondence and oracle run); the link from the concrete datatype wrapper to the abstract system's Gen step is by the local_eq_remote lemmas, not yet a full simulation proof.",
  "technique": "Coq proof (abstract permutation/convergence theorem + per-datatype commutation) + in-Coq differential replay of real replica histories",
 },
 "C02": {
  "text": "Theorems: the counter equals wrap32 of the sum of all increments; a map key holds the entry of the operation with the greatest timestamp among all operations on that key (absent iff none) for every executable order — a function of the operation set only. The model functions are tied to the code by the crdt correspondence slices; model-vs-implementation replay catches convergent-but-wrong-winner changes.",
  "note": TB + "; list/array part of the statement (newest update unless deleted, siblings newest first) is so far covered by model correspondence only.",
  "technique": "Coq proof (max-timestamp characterisation by induction over executable sequences) + in-Coq differential replay",
 },
 "C15": {
  "text": "Theorems: over every history of a datatype (failed calls, aborted transactions, remote deliveries) the queued operations are numbered 1,2,3,... and each new local operation's lamport exceeds every operation applied before it (generic in the kernel, instantiated for map and list); and over the Gallina model of timestamp.go/operation_id.go: the node-table key is injective for all timestamps (unbounded), comparison is a strict total order over distinct operations for all clocks below the half-range wrap (and refuted beyond it by a machine-checked witness). The model is tied to the code on every run by evaluating the implementation's observed Compare/Hash-equality/Next/RollBack/SyncLamport results inside Coq, plus an exhaustive key-collision grid on the implementation.",
  "note": TB + "; clocks assumed < 2^63 / eras < 2^31.",
  "technique": "Coq proof (injectivity by separator splitting + decimal round trip; order by reduction to lexicographic N/string order) + in-Coq differential evaluation",
 },
}
