# Per-property configuration of bin/check: which correspondence slices (harness
# sub-commands) the property's theorems depend on, and extra trusted-base notes.
# slice entry: (name, {tier: [extra harness args]})
CRDT = [("crdt-counter", {"quick": ["-n", "120"], "thorough": ["-n", "1500"], "search": ["-n", "1500"]}),
        ("crdt-map", {"quick": ["-n", "150"], "thorough": ["-n", "1500"], "search": ["-n", "1500"]}),
        ("crdt-list", {"quick": ["-n", "150"], "thorough": ["-n", "1500"], "search": ["-n", "1500"]})]
WIRE = [("wire-counter", {"quick": ["-n", "40"], "thorough": ["-n", "300"], "search": ["-n", "120"]}),
        ("wire-map", {"quick": ["-n", "40"], "thorough": ["-n", "300"], "search": ["-n", "120"]}),
        ("wire-list", {"quick": ["-n", "40"], "thorough": ["-n", "300"], "search": ["-n", "120"]}),
        ("wire-doc", {"quick": ["-n", "30"], "thorough": ["-n", "240"], "search": ["-n", "90"]})]
WIREF = [(n, {k: v + ["-faults"] for k, v in a.items()}) for (n, a) in WIRE]
WIRED = [(n, {k: v + ["-dbfaults"] for k, v in a.items()}) for (n, a) in WIRE]
SRV_TRUST = ["in-memory MongoDB wire-protocol server (harness/fakemongo) standing in for mongod: unique _id, ordered insertMany, upsert, find with sort — assumed to match MongoDB for the operators orda uses",
             "in-process MQTT broker (harness/fakemqtt) recording publishes"]
API = [("api-counter", {"quick": ["-n", "60"], "thorough": ["-n", "1200"], "search": ["-n", "1000"]}),
       ("api-map", {"quick": ["-n", "100"], "thorough": ["-n", "1500"], "search": ["-n", "1500"]}),
       ("api-list", {"quick": ["-n", "100"], "thorough": ["-n", "1500"], "search": ["-n", "1500"]})]
CONC = [("conc-counter", {"quick": ["-n", "60"], "thorough": ["-n", "1200"], "search": ["-n", "600"]}),
        ("conc-map", {"quick": ["-n", "60"], "thorough": ["-n", "1200"], "search": ["-n", "600"]}),
        ("conc-list", {"quick": ["-n", "60"], "thorough": ["-n", "1200"], "search": ["-n", "600"]})]
CONCSRV = [("concsrv-counter", {"quick": ["-n", "12"], "thorough": ["-n", "90"], "search": ["-n", "100"]}),
           ("concsrv-map", {"quick": ["-n", "12"], "thorough": ["-n", "90"], "search": ["-n", "100"]}),
           ("concsrv-list", {"quick": ["-n", "12"], "thorough": ["-n", "90"], "search": ["-n", "100"]})]
DOC = [("doc", {"quick": ["-n", "600"], "thorough": ["-n", "2000"], "search": ["-n", "1500"]})]
REALTIME = [("realtime-counter", {"quick": ["-n", "8"], "thorough": ["-n", "60"], "search": ["-n", "60"]}),
            ("realtime-map", {"quick": ["-n", "8"], "thorough": ["-n", "60"], "search": ["-n", "60"]}),
            ("realtime-list", {"quick": ["-n", "8"], "thorough": ["-n", "60"], "search": ["-n", "60"]})]
PROPS = {
    "C14": {"slices": [("codec", {"quick": ["-n", "1500"], "thorough": ["-n", "20000"], "search": ["-n", "8000"]})],
            "trusted": ["encoding/json, google.golang.org/protobuf and mongo-driver/bson byte formats: exercised (every case goes through all three), not modelled",
                        "float64: the model's numbers are exact integers; faithful for |z| <= 2^53, non-integral floats are not generated"],
            "assumptions": ["lamport clocks below 2^63 (BSON has no uint64)", "snapshot operations: their body is covered by C10, not by the codec model"]},
    "C10": {"slices": CRDT + DOC, "trusted": ["Go encoding/json (Marshal/Unmarshal of the snapshot structs) is exercised, not modelled byte by byte: the marshalled JSON is parsed and compared field by field with the model's marshalled form"], "assumptions": ["Document snapshots: the tree is modelled, its marshalled form is not; restored Documents are compared by value and by continuation (Go oracle)"]},
    "C03": {"slices": API + DOC, "trusted": [], "assumptions": ["Document: modelled and replayed (Model/Doc.v), compared with a plain JSON value by a Go oracle; its refinement to plain JSON is not proved"]},
    "C04": {"slices": [CRDT[2], API[2]] + DOC, "trusted": [], "assumptions": ["Document arrays: modelled and replayed (Model/Doc.v) and compared with the slice operation on a plain JSON value; the order theorem across replicas is proved for List (Proofs/ListConv.v), Document arrays run the same algorithm in separate model functions"]},
    "C05": {"slices": WIRE, "trusted": SRV_TRUST, "assumptions": ["the composition of the proved ingredients over Net.v is not yet a theorem (C05_statement_list is a definition)"]},
    "C07": {"slices": WIREF, "trusted": SRV_TRUST, "assumptions": ["faults exercised: duplicated request, dropped response + retry; delayed (stale) responses are not driven", "C07_statement_list is a definition, not yet a theorem"]},
    "C08": {"slices": WIRED, "trusted": SRV_TRUST + ["fault model: a storage command fails atomically (no partial effect of the failing command itself); a server crash is modelled as the failure of the next command plus a lost response"],
            "assumptions": ["the recovery half (C08_statement_list) is a definition, not yet a theorem", "handlers of one datatype run one at a time"]},
    "C06": {"slices": WIRE + WIREF, "trusted": SRV_TRUST, "assumptions": ["handlers of one datatype run one at a time (the lock, C12)", "no storage fault during the request (C08)"]},
    "C11": {"slices": WIRE + WIRED, "trusted": SRV_TRUST, "assumptions": ["snapshot updates of one datatype run one at a time (their TryLock; a racing update is skipped)", "Document snapshots are compared by the replay oracle only, not modelled"]},
    "C20": {"slices": CONC, "trusted": ["the Go scheduler: the schedules explored by the stress slices are those the runtime happens to produce under randomized yields (2..8 goroutines, 16 cores); the theorem quantifies over all schedules of the model, the slices sample schedules of the code"],
            "assumptions": ["Model/Conc.v is a hand transcription of BeginTransaction/EndTransaction/unlock (statement-level atomic steps, sequentially consistent memory)", "data-race freedom in the sense of the Go memory model is not claimed (Rollback rewrites metadata a concurrent pack builder reads)", "Document is not driven by the concurrent slices"]},
    "C12": {"slices": CONCSRV, "race": [("concsrv-counter", {"quick": ["-n", "8"], "thorough": ["-n", "40"]}), ("concsrv-list", {"quick": ["-n", "8"], "thorough": ["-n", "40"]})],
            "race_scope": "orda/server/",
            "trusted": SRV_TRUST + ["the Go scheduler and race detector: schedules of the real server are sampled (2..16 calls on 16 cores, released at the same instant or staggered by 0..4 ms), the theorem quantifies over all schedules of the model", "LocalLock (a CAS mutex with a lease timeout) is used, not the Redis lock"],
            "assumptions": ["Model/SrvLock.v is a hand transcription of the handler's TryLock / critical section / Unlock; one storage command is one atomic step", "storage commands on documents of different datatypes commute (hypothesis of the serializability theorem; validated by replaying real concurrent rounds on the sequential model)", "PatchDocument is not driven (Document is not modelled)"]},
    "C13": {"slices": WIRE + REALTIME, "trusted": SRV_TRUST + ["realtime slices: real gRPC on the loopback interface and the in-process MQTT broker, which can drop and refuse client connections for a moment (the subscription of the notification topic then fails in the exchange that subscribes the datatype)"], "assumptions": ["handlers of one datatype run one at a time"]},
    "C16": {"slices": WIRE, "trusted": SRV_TRUST, "assumptions": ["liveness of the Go code (no hang, no crash) is tested, not proved"]},
    "C17": {"slices": WIRE, "trusted": SRV_TRUST, "assumptions": ["ResetCollection is modelled and exercised once at the end of a history (resets in the middle of a history are covered by the theorem, not driven)"]},
    "C18": {"slices": WIRE + REALTIME, "trusted": SRV_TRUST + ["realtime slices: real gRPC on the loopback interface, goroutine scheduling and timing of the real client (convergence is awaited up to 5 s)"],
            "assumptions": ["the client's notification filter (own CUID, DUID, NeedPull) is exercised end to end by the realtime slices and judged by convergence, not modelled"]},
    "C19": {"slices": DOC + [WIRE[3]], "trusted": ["github.com/wI2L/jsondiff (the edit script generator) is exercised, not modelled"],
            "assumptions": ["PARTIAL: 'the result equals the target' and convergence of other replicas are decided by replay + oracle, not by a theorem (see Properties/C19.v)", "the REST endpoint PatchDocument is driven by the wire-doc slice and judged by Go oracles (answer = target, stored log rebuilds to the target, log invariants, convergence of clients); its handler path with the administrative volatile client is not modelled: the model takes the stored operations over as observed"]},
    "C01": {"slices": CRDT + DOC, "trusted": [], "assumptions": ["clocks below the half-range wrap", "delivery in log order, whole transaction units"]},
    "C02": {"slices": CRDT, "trusted": [], "assumptions": ["clocks below the half-range wrap"]},
    "C09": {"slices": CRDT + DOC, "trusted": [], "assumptions": ["snapshot export/import is the identity on the model state (C10 carries the round trip)"]},
    "C15": {
        "slices": [("time", {"quick": [], "thorough": [], "search": []})] + CRDT + DOC,
        "trusted": [],
        "assumptions": ["clocks stay below the half-range wrap (era < 2^31, lamport < 2^63) — proved unreachable otherwise only by event counting"],
    },
}
