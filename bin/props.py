# Per-property configuration of bin/check: which correspondence slices (harness
# sub-commands) the property's theorems depend on, and extra trusted-base notes.
# slice entry: (name, {tier: [extra harness args]})
CRDT = [("crdt-counter", {"quick": ["-n", "120"], "thorough": ["-n", "4000"], "search": ["-n", "1500"]}),
        ("crdt-map", {"quick": ["-n", "150"], "thorough": ["-n", "4000"], "search": ["-n", "1500"]}),
        ("crdt-list", {"quick": ["-n", "150"], "thorough": ["-n", "4000"], "search": ["-n", "1500"]})]
PROPS = {
    "C01": {"slices": CRDT, "trusted": [], "assumptions": ["clocks below the half-range wrap", "delivery in log order, whole transaction units"]},
    "C02": {"slices": CRDT, "trusted": [], "assumptions": ["clocks below the half-range wrap"]},
    "C09": {"slices": CRDT, "trusted": [], "assumptions": ["snapshot export/import is the identity on the model state (C10 carries the round trip)"]},
    "C15": {
        "slices": [("time", {"quick": [], "thorough": [], "search": []})] + CRDT,
        "trusted": [],
        "assumptions": ["clocks stay below the half-range wrap (era < 2^31, lamport < 2^63) — proved unreachable otherwise only by event counting"],
    },
}
