# Per-property configuration of bin/check: which correspondence slices (harness
# sub-commands) the property's theorems depend on, and extra trusted-base notes.
# slice entry: (name, {tier: [extra harness args]})
PROPS = {
    "C15": {
        "slices": [("time", {"quick": [], "thorough": [], "search": []})],
        "trusted": [],
        "assumptions": ["clocks stay below the half-range wrap (era < 2^31, lamport < 2^63) — proved unreachable otherwise only by event counting"],
    },
}
