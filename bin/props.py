# Per-property configuration of bin/check: which correspondence slices (harness
# sub-commands) the property's theorems depend on, and extra trusted-base notes.
# slice entry: (name, {tier: [extra harness args]})
CRDT = [("crdt-counter", {"quick": ["-n", "120"], "thorough": ["-n", "4000"], "search": ["-n", "1500"]}),
        ("crdt-map", {"quick": ["-n", "150"], "thorough": ["-n", "4000"], "search": ["-n", "1500"]}),
        ("crdt-list", {"quick": ["-n", "150"], "thorough": ["-n", "4000"], "search": ["-n", "1500"]})]
PROPS = {
    "C01": {"slices": CRDT, "trusted": [], "assumptions": ["clocks below the half-range wrap", "delivery in log order, whole transaction units"]},
    "C02": {"slices": CRDT, "trusted": [], "assumptions": ["clocks below the half-range wrap"]},
    "C15": {
        "slices": [("time", {"quick": [], "thorough": [], "search": []})],
        "trusted": [],
        "assumptions": ["clocks stay below the half-range wrap (era < 2^31, lamport < 2^63) — proved unreachable otherwise only by event counting"],
    },
}
